#!/bin/bash
# usage: eval_mutant.sh <mutant dir with patch.diff and demo.rs> <property id> [cfgs]
# Confirms the seeded defect in a scratch worktree (suite passes with it, demo fails with it and passes without),
# then runs the quick check of the property against the scratch worktree.
set -u
M=$1; P=$2; CFGS=${3:-}
W=/tmp/ev/$(basename $(dirname $M))-$(basename $M)
rm -rf $W; git -C /repo worktree prune; git -C /repo worktree add -q --detach $W HEAD || exit 3
cp /repo/Cargo.lock $W/ 2>/dev/null
mkdir -p $W/tests; cp $M/demo.rs $W/tests/demo.rs
cd $W
echo "--- demo on the clean tree"
(cargo test --offline --test demo 2>&1 | grep -E "^test result|panicked|error" | head -5)
(cargo test --offline --release --test demo 2>&1 | grep -E "^test result|error" | head -3)
git apply $M/patch.diff || { echo "PATCH DOES NOT APPLY"; exit 4; }
echo "--- existing suite with the mutant"
cargo test --workspace --no-fail-fast --offline --lib 2>&1 | grep -E "^test result" | head -3
cargo test --workspace --no-fail-fast --offline --doc 2>&1 | grep -E "^test result" | head -3
echo "--- demo with the mutant (debug, release)"
(cargo test --offline --test demo 2>&1 | grep -E "^test result" | head -3)
(cargo test --offline --release --test demo 2>&1 | grep -E "^test result" | head -3)
rm -rf $W/tests/demo.rs
echo "--- check $P against the mutant"
cd /verif
VERIF_REPO=$W VERIF_ONLY_CFGS=$CFGS timeout 1500 python3 run_check.py $P --tier quick 2>&1 | grep -v "^\[run_check\]" | cut -c1-400 | grep -E "^VIOLATION|sig=|^C[0-9]+ quick|INCONCLUSIVE|HARNESS" | head -12
echo "rc=${PIPESTATUS[0]}"
