#!/usr/bin/env python3
"""Source coverage of /repo/src reached by the monitored workloads (not a registered check; a measurement).

usage: coverage.py [--tier quick] [--props C01,C02,...]

Builds the harness with `-Cinstrument-coverage` (configuration `cov` of run_check.py, nightly toolchain so that the
profile format matches the sysroot's llvm-cov), runs the `rel` legs of every property's plan with it, merges the raw
profiles and writes coverage/REPORT.md: per source file the lines and functions reached, and every function of the
crate that no workload reached (instantiations folded by demangled name).  A monitor says nothing about code its
workload never drives; this is how the reach of the workloads is measured instead of assumed.
"""
import glob
import json
import os
import re
import subprocess
import sys

VERIF = os.path.dirname(os.path.abspath(__file__))
sys.path.insert(0, VERIF)
import plans  # noqa: E402
import run_check  # noqa: E402

BIN = os.path.expanduser("~/.rustup/toolchains/nightly-x86_64-unknown-linux-gnu/lib/rustlib/x86_64-unknown-linux-gnu/bin")


def idents(mangled):
    """The identifiers inside a v0-mangled Rust symbol, in order (no demangler is installed): enough to name the function."""
    out = []
    i = 0
    mangled = re.sub(r"(?<=[A-Z])s[0-9a-zA-Z]*_", "", mangled)  # disambiguators (crate hashes, impl indices)
    while i < len(mangled):
        if mangled[i].isdigit() and (i == 0 or not mangled[i - 1].isdigit()):
            j = i
            while j < len(mangled) and mangled[j].isdigit():
                j += 1
            n = int(mangled[i:j])
            if j < len(mangled) and mangled[j] == "_":
                j += 1
            word = mangled[j:j + n]
            if n > 0 and len(word) == n and re.match(r"^[A-Za-z_][A-Za-z0-9_]*$", word):
                out.append(word)
                i = j + n
                continue
        i += 1
    return "::".join(out) if out else mangled


def main():
    tier = sys.argv[sys.argv.index("--tier") + 1] if "--tier" in sys.argv else "quick"
    props = sys.argv[sys.argv.index("--props") + 1].split(",") if "--props" in sys.argv else sorted(plans.PLANS)
    covdir = os.path.join(run_check.CACHE, "cov")
    os.makedirs(covdir, exist_ok=True)
    reuse = "--reuse" in sys.argv
    if not reuse:
        for f in glob.glob(os.path.join(covdir, "*.profraw")):
            os.remove(f)
    env = dict(os.environ, VERIF_ONLY_CFGS="cov")
    per_prop = {}
    for p in props:
        if reuse:
            per_prop[p] = (0, "(profiles reused)")
            continue
        r = subprocess.run([sys.executable, os.path.join(VERIF, "run_check.py"), p, "--tier", tier], env=env, stdout=subprocess.PIPE, stderr=subprocess.STDOUT, text=True)
        last = [l for l in r.stdout.splitlines() if l.startswith(p + " ")]
        per_prop[p] = (r.returncode, last[-1] if last else r.stdout[-300:])
        print(p, r.returncode, per_prop[p][1], flush=True)
    raws = glob.glob(os.path.join(covdir, "*.profraw"))
    if not raws:
        print("no profiles were written")
        return 2
    prof = os.path.join(covdir, "merged.profdata")
    listing = os.path.join(covdir, "files.txt")
    open(listing, "w").write("\n".join(raws) + "\n")
    subprocess.check_call([os.path.join(BIN, "llvm-profdata"), "merge", "-sparse", "--failure-mode=all", "-f", listing, "-o", prof])
    binary = os.path.join(run_check.ws_dir("cov"), "target", "release", "vmon")
    out = subprocess.run([os.path.join(BIN, "llvm-cov"), "export", "-format=text", "-instr-profile", prof, binary, "-ignore-filename-regex", r"(\.cargo|rustc|/verif/)"],
                         stdout=subprocess.PIPE, text=True, check=True).stdout
    data = json.loads(out)["data"][0]
    repo = os.path.abspath(run_check.REPO)
    rows = []
    for f in data["files"]:
        name = f["filename"]
        if not name.startswith(repo + "/src"):
            continue
        s = f["summary"]
        rows.append((name[len(repo) + 1:], s["lines"]["covered"], s["lines"]["count"], s["functions"]["covered"], s["functions"]["count"], s["regions"]["covered"], s["regions"]["count"]))
    # Functions never reached (fold instantiations: a generic function counts as reached if any instantiation was).
    names = [fn["name"] for fn in data["functions"]]
    demangled = [idents(n) for n in names]
    reached = {}
    where = {}
    for fn, dn in zip(data["functions"], demangled):
        files = [x for x in fn["filenames"] if x.startswith(repo + "/src")]
        if not files:
            continue
        # Key on the file and the first region's line: stable across instantiations.
        reg = fn["regions"][0] if fn["regions"] else [0, 0, 0, 0]
        key = (files[0][len(repo) + 1:], reg[0])
        reached[key] = reached.get(key, 0) + fn["count"]
        where.setdefault(key, re.sub(r"::h[0-9a-f]{16}$", "", dn))
    unreached = sorted(k for k, v in reached.items() if v == 0)
    os.makedirs(os.path.join(VERIF, "coverage"), exist_ok=True)
    with open(os.path.join(VERIF, "coverage", "REPORT.md"), "w") as o:
        o.write("# Source coverage of /repo/src by the monitored workloads\n\n")
        o.write("Produced by `python3 coverage.py --tier %s` (release build with `-Cinstrument-coverage`, the `rel` legs of every plan; tests and doc tests of the crate are not run). "
                "`#[cfg(test)]` code is not compiled.\n\n" % tier)
        o.write("| file | lines reached | functions reached | regions reached |\n|---|---|---|---|\n")
        tl = tc = fl = fc = rl = rc = 0
        for name, lc, ln, fcov, fn_, rcov, rn in sorted(rows):
            o.write("| %s | %d / %d (%.1f %%) | %d / %d | %d / %d (%.1f %%) |\n" % (name, lc, ln, 100.0 * lc / max(ln, 1), fcov, fn_, rcov, rn, 100.0 * rcov / max(rn, 1)))
            tl += lc; tc += ln; fl += fcov; fc += fn_; rl += rcov; rc += rn
        o.write("| **total** | %d / %d (%.1f %%) | %d / %d | %d / %d (%.1f %%) |\n\n" % (tl, tc, 100.0 * tl / max(tc, 1), fl, fc, rl, rc, 100.0 * rl / max(rc, 1)))
        o.write("## Functions of the crate that no workload reached (%d of %d source-level functions)\n\n" % (len(unreached), len(reached)))
        for k in unreached:
            o.write("* `%s:%d` %s\n" % (k[0], k[1], where[k]))
        o.write("\n## Runs\n\n")
        for p in props:
            o.write("* %s: exit %d, %s\n" % (p, per_prop[p][0], per_prop[p][1]))
    # Uncovered lines per file, for whoever extends the workloads.
    with open(os.path.join(covdir, "uncovered_lines.txt"), "w") as o:
        for f in data["files"]:
            name = f["filename"]
            if not name.startswith(repo + "/src"):
                continue
            lines = {}
            for seg in f["segments"]:
                line, col, count, has_count, is_entry = seg[0], seg[1], seg[2], seg[3], seg[4]
                if has_count and is_entry:
                    lines[line] = max(lines.get(line, 0), count)
            zero = sorted(l for l, c in lines.items() if c == 0)
            o.write("%s: %s\n" % (name[len(repo) + 1:], " ".join(map(str, zero))))
    print(open(os.path.join(VERIF, "coverage", "REPORT.md")).read()[:6000])
    if "--keep-raw" not in sys.argv:
        for f in raws:
            os.remove(f)
    return 0


if __name__ == "__main__":
    sys.exit(main())
