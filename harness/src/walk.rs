// A minimal walker over bytes written by the library, following SERIALIZATION.md. Used to observe parameters that the
// API does not expose (sparse low width, RL sample width) and to strip optional support structures (C19).

pub struct Walker<'a> {
    pub b: &'a [u8],
    pub pos: usize, // in elements
}

impl<'a> Walker<'a> {
    pub fn new(b: &'a [u8]) -> Walker<'a> { Walker { b, pos: 0 } }

    pub fn elem(&mut self) -> Result<u64, String> {
        let o = self.pos * 8;
        if o + 8 > self.b.len() { return Err(format!("walker: element {} past the end ({} bytes)", self.pos, self.b.len())); }
        let mut x = [0u8; 8];
        x.copy_from_slice(&self.b[o..o + 8]);
        self.pos += 1;
        Ok(u64::from_le_bytes(x))
    }

    pub fn skip(&mut self, n: usize) -> Result<(), String> {
        if (self.pos + n) * 8 > self.b.len() { return Err("walker: skip past the end".to_string()); }
        self.pos += n;
        Ok(())
    }

    // RawVector: len, vector of elements. Returns (bit length, first data element, number of data elements).
    pub fn raw_vector(&mut self) -> Result<(usize, usize, usize), String> {
        let len = self.elem()? as usize;
        let words = self.elem()? as usize;
        let start = self.pos;
        self.skip(words)?;
        Ok((len, start, words))
    }

    // IntVector: len, width, raw vector. Returns (len, width).
    pub fn int_vector(&mut self) -> Result<(usize, usize), String> {
        let len = self.elem()? as usize;
        let width = self.elem()? as usize;
        self.raw_vector()?;
        Ok((len, width))
    }

    // Optional structure: returns (present, element range of the body).
    pub fn option(&mut self) -> Result<(bool, usize, usize), String> {
        let size = self.elem()? as usize;
        let start = self.pos;
        self.skip(size)?;
        Ok((size > 0, start, size))
    }

    // BitVector: ones, raw vector, three optionals. Returns (ones, len, [present; 3]).
    pub fn bit_vector(&mut self) -> Result<(usize, usize, [bool; 3]), String> {
        let ones = self.elem()? as usize;
        let (len, _, _) = self.raw_vector()?;
        let a = self.option()?.0;
        let b = self.option()?.0;
        let c = self.option()?.0;
        Ok((ones, len, [a, b, c]))
    }
}

// (universe, ones, low width) of a serialized sparse vector.
pub fn sparse_params(bytes: &[u8]) -> Result<(usize, usize, usize), String> {
    let mut w = Walker::new(bytes);
    let n = w.elem()? as usize;
    w.bit_vector()?;
    let (m, width) = w.int_vector()?;
    if w.pos * 8 != bytes.len() { return Err("walker: trailing bytes after sparse vector".to_string()); }
    Ok((n, m, width))
}

// (len, ones, samples len, samples width, data len) of a serialized run-length vector.
pub fn rl_params(bytes: &[u8]) -> Result<(usize, usize, usize, usize, usize), String> {
    let mut w = Walker::new(bytes);
    let n = w.elem()? as usize;
    let ones = w.elem()? as usize;
    let (slen, swidth) = w.int_vector()?;
    let (dlen, _) = w.int_vector()?;
    if w.pos * 8 != bytes.len() { return Err("walker: trailing bytes after run-length vector".to_string()); }
    Ok((n, ones, slen, swidth, dlen))
}

// Copies a serialized BitVector from `w` to `out`, replacing every optional support structure by an absent one.
pub fn strip_bit_vector(w: &mut Walker, out: &mut Vec<u8>) -> Result<(), String> {
    let start = w.pos;
    let _ones = w.elem()?;
    w.raw_vector()?;
    out.extend_from_slice(&w.b[start * 8..w.pos * 8]);
    for _ in 0..3 {
        w.option()?;
        out.extend_from_slice(&0u64.to_le_bytes());
    }
    Ok(())
}

pub fn copy_elems(w: &mut Walker, n: usize, out: &mut Vec<u8>) -> Result<(), String> {
    let start = w.pos;
    w.skip(n)?;
    out.extend_from_slice(&w.b[start * 8..w.pos * 8]);
    Ok(())
}

pub fn copy_int_vector(w: &mut Walker, out: &mut Vec<u8>) -> Result<(), String> {
    let start = w.pos;
    w.int_vector()?;
    out.extend_from_slice(&w.b[start * 8..w.pos * 8]);
    Ok(())
}

// Sparse vector with the supports of `high` stripped.
pub fn strip_sparse(bytes: &[u8]) -> Result<Vec<u8>, String> {
    let mut w = Walker::new(bytes);
    let mut out = Vec::new();
    copy_elems(&mut w, 1, &mut out)?;
    strip_bit_vector(&mut w, &mut out)?;
    copy_int_vector(&mut w, &mut out)?;
    Ok(out)
}

// WMCore with the supports of every level stripped.
pub fn strip_wm_core_at(w: &mut Walker, out: &mut Vec<u8>) -> Result<(), String> {
    let start = w.pos;
    let width = w.elem()? as usize;
    out.extend_from_slice(&w.b[start * 8..w.pos * 8]);
    for _ in 0..width { strip_bit_vector(w, out)?; }
    Ok(())
}

pub fn strip_wm_core(bytes: &[u8]) -> Result<Vec<u8>, String> {
    let mut w = Walker::new(bytes);
    let mut out = Vec::new();
    strip_wm_core_at(&mut w, &mut out)?;
    Ok(out)
}

pub fn strip_wavelet_matrix(bytes: &[u8]) -> Result<Vec<u8>, String> {
    let mut w = Walker::new(bytes);
    let mut out = Vec::new();
    copy_elems(&mut w, 1, &mut out)?;
    strip_wm_core_at(&mut w, &mut out)?;
    copy_int_vector(&mut w, &mut out)?;
    Ok(out)
}
