// vmon: runtime monitors for simple-sds. One driver per property; see /verif/DESIGN.md.
//
// usage: vmon <driver> [tier=quick|thorough] [seed=N] [shard=I] [nshards=N] [cfg=NAME] [part=NAME] [case=N] [scale=N] [tmp=DIR]
//
// The last two lines of stdout are `VMON-DIGESTS <hex,...>` and `VMON-RESULT <json>`. The exit status is 0 whenever the
// driver ran to completion (violations are reported in the JSON); 2 for a harness error; a signal or sanitizer abort
// otherwise.

mod util;
mod models;
mod gen;
mod mon;
mod iterhist;
mod mk;
mod walk;
mod drivers;

use std::collections::{BTreeMap, HashSet};
use std::io::Write;

use util::{Ctx, Tier};

fn main() {
    let args: Vec<String> = std::env::args().collect();
    if args.len() < 2 {
        eprintln!("usage: vmon <driver> [key=value ...]");
        std::process::exit(2);
    }
    let driver = args[1].clone();
    let mut kv: BTreeMap<String, String> = BTreeMap::new();
    for a in &args[2..] {
        if let Some(p) = a.find('=') {
            kv.insert(a[..p].to_string(), a[p + 1..].to_string());
        }
    }
    if driver == "c14child" {
        drivers::c14::child(&kv);
    }
    if driver == "c18child" {
        drivers::c18::child(&kv);
    }
    if driver == "c20child" {
        drivers::c20::child(&kv);
    }
    let get = |k: &str, d: &str| kv.get(k).cloned().unwrap_or_else(|| d.to_string());
    let tier = if get("tier", "quick") == "thorough" { Tier::Thorough } else { Tier::Quick };
    let mut ctx = Ctx {
        prop: driver.to_uppercase(),
        tier,
        seed: get("seed", "1").parse().unwrap_or(1),
        shard: get("shard", "0").parse().unwrap_or(0),
        nshards: get("nshards", "1").parse().unwrap_or(1),
        cfg: get("cfg", "?"),
        part: get("part", ""),
        only_case: kv.get("case").and_then(|c| c.parse().ok()),
        scale: get("scale", "1").parse().unwrap_or(1),
        tmpdir: get("tmp", "/tmp"),
        dir: get("dir", ""),
        evals: 0,
        checks: 0,
        digests: HashSet::new(),
        digest_overflow: 0,
        samples: Vec::new(),
        violations: Vec::new(),
        violation_sigs: HashSet::new(),
        violations_total: 0,
        counters: BTreeMap::new(),
        notes: BTreeMap::new(),
        inconclusive: Vec::new(),
        case_no: 0,
        budget: get("budget", "0").parse().unwrap_or(0),
        budget_hit: false,
        fuzz: None,
    };
    if ctx.nshards == 0 { ctx.nshards = 1; }

    util::install_panic_hook();

    // Oracle self-test first: an oracle bug must not surface as an alarm on the library.
    let rounds = if cfg!(miri) { 5 } else { 600 };
    match models::self_test(ctx.seed, rounds) {
        Ok(n) => ctx.count("model_selftest_comparisons", n),
        Err(e) => {
            println!("VMON-HARNESS-ERROR {}", e);
            std::process::exit(2);
        },
    }

    // A panic that escapes a driver: inside the harness it is a harness error (exit 101, as before); inside the library
    // it happened in a call the driver made with valid arguments on a valid structure and did not expect to panic
    // (accessors, Clone, PartialEq, serialization). That is reported as a violation, with what was observed up to then.
    let outcome = std::panic::catch_unwind(std::panic::AssertUnwindSafe(|| drivers::run(&driver, &mut ctx)));
    let known = match outcome {
        Ok(k) => k,
        Err(payload) => {
            let last = util::last_panic();
            if last.contains("/harness/src/") || last.contains("harness-snap") || last.is_empty() { std::panic::resume_unwind(payload); }
            let place = last.rsplit(" @ ").next().unwrap_or("").rsplit("/src/").next().unwrap_or("").to_string();
            if driver == "c08" {
                // C08 is about memory safety only: a panic is a legal outcome there, so this only cuts the workload short.
                ctx.inconclusive(format!("the library panicked outside a monitored call ({}); the rest of this shard's workload was not run", last));
            } else {
                ctx.violation(&format!("library_panic.unguarded.{}", place), format!("the library panicked in a call that cannot legitimately panic (driver {} part {:?}, case #{}): {}", driver, ctx.part, ctx.case_no, last));
                ctx.inconclusive("the rest of this shard's workload was not run (unwound by the panic above)".to_string());
            }
            std::mem::forget(payload);
            true
        },
    };
    if !known {
        println!("VMON-HARNESS-ERROR unknown driver {}", driver);
        std::process::exit(2);
    }

    let mut extra: Vec<(String, String)> = Vec::new();
    let build = format!(
        "{{\"debug_assertions\":{},\"overflow_checks\":{},\"bmi2\":{},\"miri\":{},\"probes\":{},\"bounds\":{}}}",
        cfg!(debug_assertions), util::overflow_checks_on(), cfg!(target_feature = "bmi2"), cfg!(miri),
        cfg!(feature = "probes"), cfg!(feature = "bounds"));
    extra.push(("build".to_string(), build));
    #[cfg(feature = "probes")]
    {
        let names = simple_sds::verif::probe_names();
        let counters = simple_sds::verif::counters();
        let mut s = String::from("{");
        for (i, n) in names.iter().enumerate() {
            if i > 0 { s.push(','); }
            s.push_str(&format!("{}:{}", util::jstr(n), counters[i]));
        }
        s.push('}');
        extra.push(("probes".to_string(), s));
        let snames = simple_sds::verif::set_names();
        let sets = simple_sds::verif::sets();
        let mut s = String::from("{");
        for (i, n) in snames.iter().enumerate() {
            if i > 0 { s.push(','); }
            let members: Vec<String> = (0..128).filter(|b| (sets[i] >> b) & 1 == 1).map(|b| b.to_string()).collect();
            s.push_str(&format!("{}:[{}]", util::jstr(n), members.join(",")));
        }
        s.push('}');
        extra.push(("sets".to_string(), s));
    }
    #[cfg(feature = "bounds")]
    {
        extra.push(("oob_count".to_string(), simple_sds::verif::oob_count().to_string()));
    }

    let out = std::io::stdout();
    let mut out = out.lock();
    let mut line = String::from("VMON-DIGESTS ");
    let mut first = true;
    for d in ctx.digests.iter() {
        if !first { line.push(','); }
        first = false;
        line.push_str(&format!("{:x}", d));
    }
    let _ = writeln!(out, "{}", line);
    let _ = writeln!(out, "VMON-RESULT {}", ctx.to_json(&extra));
    let _ = out.flush();
}
