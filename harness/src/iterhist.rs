// iterator history monitor (C10)
