// Iterator history monitor (C10): any sequence of next / next_back / nth / nth_back / len / clone calls is checked
// step by step against a double-ended queue holding the reference sequence.

use std::collections::VecDeque;
use std::fmt::Debug;

use crate::util::{guard, Ctx};

#[derive(Clone, Copy, Debug, PartialEq, Eq)]
pub enum Call { Next, NextBack, Nth(usize), NthBack(usize), Len, Clone }

pub trait DynIter<T> {
    fn next(&mut self) -> Option<T>;
    fn nth(&mut self, n: usize) -> Option<T>;
    fn next_back(&mut self) -> Option<T>;
    fn nth_back(&mut self, n: usize) -> Option<T>;
    fn len(&self) -> usize;
    fn fork<'a>(&self) -> Box<dyn DynIter<T> + 'a> where Self: 'a;
    fn double_ended(&self) -> bool;
    fn exact(&self) -> bool;
}

// Forward-only iterator; `len_fn` is None when the type does not advertise an exact size.
pub struct Fwd<I: Iterator + Clone> {
    pub it: I,
    pub len_fn: Option<fn(&I) -> usize>,
}

impl<I: Iterator + Clone> DynIter<I::Item> for Fwd<I> {
    fn next(&mut self) -> Option<I::Item> { self.it.next() }
    fn nth(&mut self, n: usize) -> Option<I::Item> { self.it.nth(n) }
    fn next_back(&mut self) -> Option<I::Item> { unreachable!() }
    fn nth_back(&mut self, _: usize) -> Option<I::Item> { unreachable!() }
    fn len(&self) -> usize { (self.len_fn.unwrap())(&self.it) }
    fn fork<'a>(&self) -> Box<dyn DynIter<I::Item> + 'a> where Self: 'a { Box::new(Fwd { it: self.it.clone(), len_fn: self.len_fn }) }
    fn double_ended(&self) -> bool { false }
    fn exact(&self) -> bool { self.len_fn.is_some() }
}

pub struct Bidi<I: DoubleEndedIterator + ExactSizeIterator + Clone> {
    pub it: I,
}

impl<I: DoubleEndedIterator + ExactSizeIterator + Clone> DynIter<I::Item> for Bidi<I> {
    fn next(&mut self) -> Option<I::Item> { self.it.next() }
    fn nth(&mut self, n: usize) -> Option<I::Item> { self.it.nth(n) }
    fn next_back(&mut self) -> Option<I::Item> { self.it.next_back() }
    fn nth_back(&mut self, n: usize) -> Option<I::Item> { self.it.nth_back(n) }
    fn len(&self) -> usize { self.it.len() }
    fn fork<'a>(&self) -> Box<dyn DynIter<I::Item> + 'a> where Self: 'a { Box::new(Bidi { it: self.it.clone() }) }
    fn double_ended(&self) -> bool { true }
    fn exact(&self) -> bool { true }
}

pub fn fwd<'a, I: Iterator + ExactSizeIterator + Clone + 'a>(it: I) -> Box<dyn DynIter<I::Item> + 'a> {
    Box::new(Fwd { it, len_fn: Some(|i: &I| i.len()) })
}

pub fn fwd_nolen<'a, I: Iterator + Clone + 'a>(it: I) -> Box<dyn DynIter<I::Item> + 'a> {
    Box::new(Fwd { it, len_fn: None })
}

pub fn bidi<'a, I: DoubleEndedIterator + ExactSizeIterator + Clone + 'a>(it: I) -> Box<dyn DynIter<I::Item> + 'a> {
    Box::new(Bidi { it })
}

// Runs one history. Returns false on a violation. `sig` prefixes the violation signature.
pub fn run_history<'a, T: Clone + PartialEq + Debug + 'a>(ctx: &mut Ctx, sig: &str, mut it: Box<dyn DynIter<T> + 'a>, reference: &[T], calls: &[Call], what: &dyn Fn() -> String) -> bool {
    let mut model: VecDeque<T> = reference.iter().cloned().collect();
    let exact = it.exact();
    let describe = |step: usize| format!("history {:?} (failed at step {}) on {}", calls, step, what());
    for (step, call) in calls.iter().enumerate() {
        match *call {
            Call::Next => {
                let want = model.pop_front();
                if !ctx.expect_eq(&format!("{}.next", sig), || describe(step), &guard(|| it.next()), &want) { return false; }
            },
            Call::NextBack => {
                let want = model.pop_back();
                if !ctx.expect_eq(&format!("{}.next_back", sig), || describe(step), &guard(|| it.next_back()), &want) { return false; }
            },
            Call::Nth(k) => {
                let want = if k >= model.len() { model.clear(); None } else { model.drain(..k); model.pop_front() };
                if !ctx.expect_eq(&format!("{}.nth", sig), || describe(step), &guard(|| it.nth(k)), &want) { return false; }
            },
            Call::NthBack(k) => {
                let want = if k >= model.len() { model.clear(); None } else { let keep = model.len() - k; model.truncate(keep); model.pop_back() };
                if !ctx.expect_eq(&format!("{}.nth_back", sig), || describe(step), &guard(|| it.nth_back(k)), &want) { return false; }
            },
            Call::Len => {},
            Call::Clone => {
                match guard(|| it.fork()) {
                    Ok(c) => { it = c; },
                    Err(p) => { ctx.violation(&format!("{}.clone!panic", sig), format!("{}: {}", describe(step), p)); return false; },
                }
            },
        }
        if exact {
            if !ctx.expect_eq(&format!("{}.len", sig), || format!("len() after step {} of {}", step, describe(step)), &guard(|| it.len()), &model.len()) { return false; }
        }
    }
    // Drain what is left (nothing skipped, nothing twice), then it must stay exhausted.
    let rest: Vec<T> = model.iter().cloned().collect();
    let got = guard(|| {
        let mut out = Vec::new();
        for _ in 0..rest.len() + 2 {
            match it.next() { Some(x) => out.push(x), None => break }
        }
        let mut after = 0;
        for _ in 0..3 { if it.next().is_some() { after += 1; } }
        (out, after)
    });
    ctx.expect_eq(&format!("{}.drain", sig), || format!("remaining items and Some-after-None count after {}", describe(calls.len())), &got, &(rest, 0))
}

// The 9-call alphabet for double-ended iterators and the 5 forward calls.
pub const BIDI_ALPHABET: [Call; 9] = [Call::Next, Call::NextBack, Call::Nth(0), Call::Nth(1), Call::Nth(2), Call::NthBack(0), Call::NthBack(1), Call::NthBack(2), Call::Nth(usize::MAX)];
pub const FWD_ALPHABET: [Call; 5] = [Call::Next, Call::Nth(0), Call::Nth(1), Call::Nth(2), Call::Nth(usize::MAX)];

pub fn decode_history(alphabet: &[Call], len: usize, code: u64) -> Vec<Call> {
    let mut out = Vec::with_capacity(len);
    let mut c = code;
    for _ in 0..len {
        out.push(alphabet[(c % alphabet.len() as u64) as usize]);
        c /= alphabet.len() as u64;
    }
    out
}

pub fn random_history(rng: &mut crate::util::Rng, double_ended: bool, steps: usize, total: usize) -> Vec<Call> {
    let mut out = Vec::with_capacity(steps);
    for _ in 0..steps {
        let k = match rng.below(8) { 0 => 0, 1 => 1, 2 => 2, 3 => rng.below(8), 4 => rng.below(total + 2), 5 => 63 + rng.below(3), _ => rng.below(4) };
        let c = match rng.below(if double_ended { 12 } else { 7 }) {
            0 | 1 | 2 => Call::Next,
            3 | 4 => Call::Nth(k),
            5 => Call::Clone,
            6 => if rng.chance(1, 30) { Call::Nth(usize::MAX) } else { Call::Len },
            7 | 8 | 9 => Call::NextBack,
            10 => Call::NthBack(k),
            _ => if rng.chance(1, 30) { Call::NthBack(usize::MAX) } else { Call::NthBack(k % 3) },
        };
        out.push(c);
    }
    out
}
