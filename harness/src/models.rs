// Reference models. Deliberately naive; they share no code with the library.
//
// * NaiveBits: Vec<bool>, linear scans. The definition itself.
// * SetModel: universe size + sorted positions (duplicates allowed = multiset), binary search. For huge universes.
// * RunModel: universe size + maximal runs with prefix counts. For run-length vectors with runs up to ~2^64.
//
// `self_test` cross-checks SetModel and RunModel against NaiveBits on small inputs; a disagreement is a
// harness error (never reported as a violation of the library).

use crate::util::Rng;

pub trait Model {
    fn len(&self) -> usize;
    fn count_ones(&self) -> usize;
    fn count_zeros(&self) -> usize { self.len().saturating_sub(self.count_ones()) }
    // Defined for i < len.
    fn get(&self, i: usize) -> bool;
    // Defined for every i (clamps at len).
    fn rank(&self, i: usize) -> usize;
    fn select(&self, r: usize) -> Option<usize>;
    fn select_zero(&self, r: usize) -> Option<usize>;
    // (rank, position) of the last set position <= v; for multisets the last occurrence.
    fn pred(&self, v: usize) -> Option<(usize, usize)>;
    // (rank, position) of the first set position >= v; for multisets the first occurrence.
    fn succ(&self, v: usize) -> Option<(usize, usize)>;
    fn describe(&self) -> String;
}

//-----------------------------------------------------------------------------

#[derive(Clone, Debug, PartialEq, Eq)]
pub struct NaiveBits(pub Vec<bool>);

impl Model for NaiveBits {
    fn len(&self) -> usize { self.0.len() }
    fn count_ones(&self) -> usize { self.0.iter().filter(|b| **b).count() }
    fn get(&self, i: usize) -> bool { self.0[i] }
    fn rank(&self, i: usize) -> usize {
        let i = std::cmp::min(i, self.0.len());
        self.0[..i].iter().filter(|b| **b).count()
    }
    fn select(&self, r: usize) -> Option<usize> {
        let mut seen = 0;
        for (i, b) in self.0.iter().enumerate() {
            if *b {
                if seen == r { return Some(i); }
                seen += 1;
            }
        }
        None
    }
    fn select_zero(&self, r: usize) -> Option<usize> {
        let mut seen = 0;
        for (i, b) in self.0.iter().enumerate() {
            if !*b {
                if seen == r { return Some(i); }
                seen += 1;
            }
        }
        None
    }
    fn pred(&self, v: usize) -> Option<(usize, usize)> {
        let mut best = None;
        let mut seen = 0;
        for (i, b) in self.0.iter().enumerate() {
            if i > v { break; }
            if *b { best = Some((seen, i)); seen += 1; }
        }
        best
    }
    fn succ(&self, v: usize) -> Option<(usize, usize)> {
        let mut seen = 0;
        for (i, b) in self.0.iter().enumerate() {
            if *b {
                if i >= v { return Some((seen, i)); }
                seen += 1;
            }
        }
        None
    }
    fn describe(&self) -> String { format!("bits[{}]={}", self.0.len(), crate::util::fmt_bits(&self.0, 96)) }
}

impl NaiveBits {
    pub fn positions(&self) -> Vec<usize> {
        self.0.iter().enumerate().filter(|(_, b)| **b).map(|(i, _)| i).collect()
    }
}

//-----------------------------------------------------------------------------

#[derive(Clone, Debug, PartialEq, Eq)]
pub struct SetModel {
    pub n: usize,
    pub ones: Vec<usize>, // sorted, non-decreasing
}

impl SetModel {
    pub fn new(n: usize, ones: Vec<usize>) -> SetModel {
        debug_assert!(ones.windows(2).all(|w| w[0] <= w[1]));
        SetModel { n, ones }
    }

    pub fn from_bits(bits: &[bool]) -> SetModel {
        SetModel { n: bits.len(), ones: bits.iter().enumerate().filter(|(_, b)| **b).map(|(i, _)| i).collect() }
    }

    pub fn is_multiset(&self) -> bool {
        self.ones.windows(2).any(|w| w[0] == w[1])
    }

    pub fn to_bits(&self) -> Vec<bool> {
        let mut v = vec![false; self.n];
        for &p in &self.ones { v[p] = true; }
        v
    }

    // Maximal runs (start, len) of the set interpretation.
    pub fn runs(&self) -> Vec<(usize, usize)> {
        let mut out: Vec<(usize, usize)> = Vec::new();
        for &p in &self.ones {
            if let Some(last) = out.last_mut() {
                if last.0 + last.1 == p { last.1 += 1; continue; }
                if last.0 + last.1 > p { continue; } // duplicate
            }
            out.push((p, 1));
        }
        out
    }
}

impl Model for SetModel {
    fn len(&self) -> usize { self.n }
    fn count_ones(&self) -> usize { self.ones.len() }
    fn get(&self, i: usize) -> bool { self.ones.binary_search(&i).is_ok() }
    fn rank(&self, i: usize) -> usize {
        if i >= self.n { return self.ones.len(); }
        self.ones.partition_point(|&x| x < i)
    }
    fn select(&self, r: usize) -> Option<usize> { self.ones.get(r).copied() }
    fn select_zero(&self, r: usize) -> Option<usize> {
        // Only meaningful for sets.
        if r >= self.count_zeros() { return None; }
        // k = number of ones before the r-th zero = number of indices j with ones[j] - j <= r.
        let mut lo = 0usize;
        let mut hi = self.ones.len();
        while lo < hi {
            let mid = lo + (hi - lo) / 2;
            if self.ones[mid] - mid <= r { lo = mid + 1; } else { hi = mid; }
        }
        Some(r + lo)
    }
    fn pred(&self, v: usize) -> Option<(usize, usize)> {
        let k = self.ones.partition_point(|&x| x <= v);
        if k == 0 { None } else { Some((k - 1, self.ones[k - 1])) }
    }
    fn succ(&self, v: usize) -> Option<(usize, usize)> {
        let k = self.ones.partition_point(|&x| x < v);
        if k >= self.ones.len() { None } else { Some((k, self.ones[k])) }
    }
    fn describe(&self) -> String { format!("n={} ones[{}]={}", self.n, self.ones.len(), crate::util::fmt_list(&self.ones, 40)) }
}

//-----------------------------------------------------------------------------

#[derive(Clone, Debug, PartialEq, Eq)]
pub struct RunModel {
    pub n: usize,
    pub runs: Vec<(usize, usize)>, // maximal, sorted, non-adjacent
    pub cum: Vec<usize>,           // ones before run i
    pub total: usize,
}

impl RunModel {
    // `runs` must be sorted and non-overlapping; adjacent runs are merged here.
    pub fn new(n: usize, runs: &[(usize, usize)]) -> RunModel {
        let mut merged: Vec<(usize, usize)> = Vec::new();
        for &(s, l) in runs {
            if l == 0 { continue; }
            if let Some(last) = merged.last_mut() {
                assert!(last.0 + last.1 <= s, "RunModel: overlapping runs");
                if last.0 + last.1 == s { last.1 += l; continue; }
            }
            merged.push((s, l));
        }
        let mut cum = Vec::with_capacity(merged.len());
        let mut total = 0usize;
        for &(_, l) in &merged { cum.push(total); total += l; }
        if let Some(&(s, l)) = merged.last() { assert!(s + l <= n, "RunModel: run past the end"); }
        RunModel { n, runs: merged, cum, total }
    }

    pub fn to_bits(&self) -> Vec<bool> {
        let mut v = vec![false; self.n];
        for &(s, l) in &self.runs { for i in s..s + l { v[i] = true; } }
        v
    }

    pub fn positions(&self, max: usize) -> Vec<usize> {
        let mut out = Vec::new();
        for &(s, l) in &self.runs {
            for i in 0..l {
                if out.len() >= max { return out; }
                out.push(s + i);
            }
        }
        out
    }
}

impl Model for RunModel {
    fn len(&self) -> usize { self.n }
    fn count_ones(&self) -> usize { self.total }
    fn get(&self, i: usize) -> bool {
        let k = self.runs.partition_point(|&(s, _)| s <= i);
        if k == 0 { return false; }
        let (s, l) = self.runs[k - 1];
        i - s < l
    }
    fn rank(&self, i: usize) -> usize {
        if i >= self.n { return self.total; }
        let k = self.runs.partition_point(|&(s, _)| s < i);
        if k == 0 { return 0; }
        let (s, l) = self.runs[k - 1];
        self.cum[k - 1] + std::cmp::min(l, i - s)
    }
    fn select(&self, r: usize) -> Option<usize> {
        if r >= self.total { return None; }
        // Last run with cum <= r.
        let k = self.cum.partition_point(|&c| c <= r);
        let (s, _) = self.runs[k - 1];
        Some(s + (r - self.cum[k - 1]))
    }
    fn select_zero(&self, r: usize) -> Option<usize> {
        if r >= self.n - self.total { return None; }
        // Number of runs whose preceding zero count (start - cum) is <= r.
        let mut lo = 0usize;
        let mut hi = self.runs.len();
        while lo < hi {
            let mid = lo + (hi - lo) / 2;
            if self.runs[mid].0 - self.cum[mid] <= r { lo = mid + 1; } else { hi = mid; }
        }
        let ones_before = if lo == 0 { 0 } else { self.cum[lo - 1] + self.runs[lo - 1].1 };
        Some(r + ones_before)
    }
    fn pred(&self, v: usize) -> Option<(usize, usize)> {
        let k = self.runs.partition_point(|&(s, _)| s <= v);
        if k == 0 { return None; }
        let (s, l) = self.runs[k - 1];
        let pos = std::cmp::min(v, s + (l - 1));
        Some((self.cum[k - 1] + (pos - s), pos))
    }
    fn succ(&self, v: usize) -> Option<(usize, usize)> {
        // First run whose last position is >= v.
        let k = self.runs.partition_point(|&(s, l)| s + (l - 1) < v);
        if k >= self.runs.len() { return None; }
        let (s, _) = self.runs[k];
        let pos = std::cmp::max(v, s);
        Some((self.cum[k] + (pos - s), pos))
    }
    fn describe(&self) -> String {
        let mut s = format!("n={} runs[{}]=[", self.n, self.runs.len());
        for (i, r) in self.runs.iter().enumerate() {
            if i >= 12 { s.push_str(",.."); break; }
            if i > 0 { s.push(','); }
            s.push_str(&format!("({},{})", r.0, r.1));
        }
        s.push(']');
        s
    }
}

//-----------------------------------------------------------------------------

// Cross-checks the fast models against the naive one. Returns Err on the first disagreement.
pub fn self_test(seed: u64, rounds: usize) -> Result<u64, String> {
    let mut rng = Rng::new(seed ^ 0x5E1F_7E57);
    let mut compared = 0u64;
    for round in 0..rounds {
        let n = if round < 40 { round % 20 } else { rng.below(150) };
        let density = rng.below(5);
        let mut bits = vec![false; n];
        for b in bits.iter_mut() {
            *b = match density {
                0 => false,
                1 => true,
                2 => rng.chance(1, 16),
                3 => rng.chance(15, 16),
                _ => rng.chance(1, 2),
            };
        }
        // Run-structured variant.
        if rng.chance(1, 3) && n > 0 {
            let mut v = rng.chance(1, 2);
            let mut i = 0;
            while i < n {
                let l = 1 + rng.below(9);
                for j in i..std::cmp::min(n, i + l) { bits[j] = v; }
                i += l;
                v = !v;
            }
        }
        let naive = NaiveBits(bits.clone());
        let set = SetModel::from_bits(&bits);
        let run = RunModel::new(n, &set.runs());
        if run.to_bits() != bits || set.to_bits() != bits {
            return Err(format!("model self-test: to_bits mismatch on {}", naive.describe()));
        }
        let models: [&dyn Model; 2] = [&set, &run];
        for m in models.iter() {
            if m.len() != naive.len() || m.count_ones() != naive.count_ones() || m.count_zeros() != naive.count_zeros() {
                return Err(format!("model self-test: counts differ on {}", naive.describe()));
            }
            for i in 0..n + 3 {
                if i < n && m.get(i) != naive.get(i) { return Err(format!("model self-test: get({}) on {}", i, naive.describe())); }
                if m.rank(i) != naive.rank(i) { return Err(format!("model self-test: rank({}) on {}", i, naive.describe())); }
                if m.select(i) != naive.select(i) { return Err(format!("model self-test: select({}) on {}", i, naive.describe())); }
                if m.select_zero(i) != naive.select_zero(i) { return Err(format!("model self-test: select_zero({}) on {}", i, naive.describe())); }
                if m.pred(i) != naive.pred(i) { return Err(format!("model self-test: pred({}) on {}", i, naive.describe())); }
                if m.succ(i) != naive.succ(i) { return Err(format!("model self-test: succ({}) on {}", i, naive.describe())); }
                compared += 6;
            }
            for &i in &[usize::MAX, usize::MAX - 1, 1usize << 63] {
                if m.rank(i) != naive.rank(i) || m.select(i) != naive.select(i) || m.select_zero(i) != naive.select_zero(i)
                    || m.pred(i) != naive.pred(i) || m.succ(i) != naive.succ(i) {
                    return Err(format!("model self-test: extreme argument {} on {}", i, naive.describe()));
                }
                compared += 5;
            }
        }
    }
    Ok(compared)
}
