// C04: wavelet matrix reproduces the vector and answers rank/select-type queries; core mapping = stable sort by reversed bits.

use simple_sds::ops::{Vector, Access, VectorIndex};
use simple_sds::wavelet_matrix::WaveletMatrix;
use simple_sds::wavelet_matrix::wm_core::WMCore;

use crate::util::{guard, hash64, Ctx, Rng};

pub fn run(ctx: &mut Ctx) {
    let part = ctx.part.clone();
    if part.is_empty() || part == "small" { small(ctx); }
    if part.is_empty() || part == "gen" { generated(ctx); }
    if part.is_empty() || part == "big" { big(ctx); }
}

fn naive_bit_len(n: u64) -> usize {
    let mut n = n;
    let mut len = 0;
    while n > 0 { len += 1; n >>= 1; }
    std::cmp::max(len, 1)
}

fn rev_key(x: u64, width: usize) -> u64 {
    let mut out = 0u64;
    for i in 0..width { if (x >> i) & 1 == 1 { out |= 1u64 << (width - 1 - i); } }
    out
}

#[derive(Clone, Copy, Debug)]
pub enum ItemType { U8, U16, U32, U64, Usize }

pub fn build_wm(v: &[u64], t: ItemType) -> Result<WaveletMatrix, String> {
    guard(|| match t {
        ItemType::U8 => WaveletMatrix::from(v.iter().map(|x| *x as u8).collect::<Vec<u8>>()),
        ItemType::U16 => WaveletMatrix::from(v.iter().map(|x| *x as u16).collect::<Vec<u16>>()),
        ItemType::U32 => WaveletMatrix::from(v.iter().map(|x| *x as u32).collect::<Vec<u32>>()),
        ItemType::U64 => WaveletMatrix::from(v.to_vec()),
        ItemType::Usize => WaveletMatrix::from(v.iter().map(|x| *x as usize).collect::<Vec<usize>>()),
    })
}

pub fn build_core(v: &[u64], t: ItemType) -> Result<WMCore, String> {
    guard(|| match t {
        ItemType::U8 => WMCore::from(v.iter().map(|x| *x as u8).collect::<Vec<u8>>()),
        ItemType::U16 => WMCore::from(v.iter().map(|x| *x as u16).collect::<Vec<u16>>()),
        ItemType::U32 => WMCore::from(v.iter().map(|x| *x as u32).collect::<Vec<u32>>()),
        ItemType::U64 => WMCore::from(v.to_vec()),
        ItemType::Usize => WMCore::from(v.iter().map(|x| *x as usize).collect::<Vec<usize>>()),
    })
}

// Checks the matrix against the plain vector. `idx` / `values` are the arguments to try.
pub fn check_wm(ctx: &mut Ctx, wm: &WaveletMatrix, v: &[u64], idx: &[usize], values: &[u64], label: &str) {
    let n = v.len();
    let desc = || format!("{} V[{}]={:?}", label, n, &v[..std::cmp::min(n, 24)]);
    let max = v.iter().copied().max().unwrap_or(0);
    let width = naive_bit_len(max);
    ctx.expect_eq("wm.len", || format!("len() on {}", desc()), &guard(|| wm.len()), &n);
    ctx.expect_eq("wm.width", || format!("width() on {}", desc()), &guard(|| wm.width()), &width);
    ctx.expect_eq("wm.is_empty", || format!("is_empty() on {}", desc()), &guard(|| wm.is_empty()), &(n == 0));

    // Whole-vector iterators.
    if n <= 6000 {
        ctx.expect_eq("wm.iter", || format!("iter() on {}", desc()), &guard(|| { let it = wm.iter(); let l = it.len(); (it.collect::<Vec<u64>>(), l) }), &(v.to_vec(), n));
        ctx.expect_eq("wm.into_iter", || format!("into_iter() on {}", desc()), &guard(|| { let it = wm.clone().into_iter(); let l = it.len(); (it.collect::<Vec<u64>>(), l) }), &(v.to_vec(), n));
    }

    for &i in idx {
        if i < n {
            ctx.expect_eq("wm.get", || format!("get({}) on {}", i, desc()), &guard(|| wm.get(i)), &v[i]);
        }
        let inv = if i < n { Some((v[..i].iter().filter(|x| **x == v[i]).count(), v[i])) } else { None };
        ctx.expect_eq("wm.inverse_select", || format!("inverse_select({}) on {}", i, desc()), &guard(|| wm.inverse_select(i)), &inv);
        ctx.expect_eq("wm.get_or", || format!("get_or({}, 77) on {}", i, desc()), &guard(|| wm.get_or(i, 77)), &(if i < n { v[i] } else { 77 }));
    }

    for &val in values {
        let occ: Vec<usize> = (0..n).filter(|j| v[*j] == val).collect();
        ctx.expect_eq("wm.contains", || format!("contains({}) on {}", val, desc()), &guard(|| wm.contains(val)), &(!occ.is_empty()));
        let all: Vec<(usize, usize)> = occ.iter().copied().enumerate().collect();
        ctx.expect_eq("wm.value_iter", || format!("value_iter({}) on {}", val, desc()), &guard(|| { let it = wm.value_iter(val); let vo = WaveletMatrix::value_of(&it); (it.collect::<Vec<(usize, usize)>>(), vo) }), &(all.clone(), val));
        for &i in idx {
            let r = occ.partition_point(|j| *j < i);
            ctx.expect_eq("wm.rank", || format!("rank({}, {}) on {}", i, val, desc()), &guard(|| wm.rank(i, val)), &r);
            // Predecessor: last occurrence <= i. Successor: first occurrence >= i.
            let p = occ.partition_point(|j| *j <= i);
            let want_pred: Vec<(usize, usize)> = if p == 0 { Vec::new() } else { all[p - 1..std::cmp::min(all.len(), p + 1)].to_vec() };
            ctx.expect_eq("wm.predecessor", || format!("predecessor({}, {}) first items on {}", i, val, desc()), &guard(|| wm.predecessor(i, val).take(2).collect::<Vec<(usize, usize)>>()), &want_pred);
            let want_succ: Vec<(usize, usize)> = all[std::cmp::min(r, all.len())..std::cmp::min(all.len(), r + 2)].to_vec();
            ctx.expect_eq("wm.successor", || format!("successor({}, {}) first items on {}", i, val, desc()), &guard(|| wm.successor(i, val).take(2).collect::<Vec<(usize, usize)>>()), &want_succ);
        }
        // select / select_iter for every rank up to count + 2 (and the same index arguments used as ranks).
        let mut ranks: Vec<usize> = (0..std::cmp::min(occ.len(), 40) + 3).collect();
        if occ.len() > 40 {
            ranks.push(occ.len() - 1); ranks.push(occ.len()); ranks.push(occ.len() + 1); ranks.push(occ.len() / 2);
            // Spread over all occurrences, and both sides of every multiple of 4096 (select superblocks of the levels).
            for k in 1..16 { ranks.push(occ.len() * k / 16); }
            let mut r = 4096; while r <= occ.len() { ranks.push(r - 1); ranks.push(r); ranks.push(r + 1); r += 4096; }
        }
        ranks.push(n); ranks.push(n + 1);
        for &r in &ranks {
            ctx.expect_eq("wm.select", || format!("select({}, {}) on {}", r, val, desc()), &guard(|| wm.select(r, val)), &occ.get(r).copied());
            let want: Vec<(usize, usize)> = all[std::cmp::min(r, all.len())..std::cmp::min(all.len(), r + 3)].to_vec();
            ctx.expect_eq("wm.select_iter", || format!("select_iter({}, {}) first items on {}", r, val, desc()), &guard(|| wm.select_iter(r, val).take(3).collect::<Vec<(usize, usize)>>()), &want);
        }
        // The same iterator through the other Iterator entry points (nth, skip, count, size_hint), also from ranks far past the end.
        for &r in [0usize, occ.len() / 2, occ.len().saturating_sub(1), occ.len(), occ.len() + 1, n, n + 1, usize::MAX / 2, usize::MAX - 1, usize::MAX].iter() {
            let rest: Vec<(usize, usize)> = all[std::cmp::min(r, all.len())..].to_vec();
            for k in [0usize, 1, 2, 7] {
                ctx.expect_eq("wm.select_iter.nth", || format!("select_iter({}, {}).nth({}) on {}", r, val, k, desc()), &guard(|| wm.select_iter(r, val).nth(k)), &rest.get(k).copied());
            }
            ctx.expect_eq("wm.select_iter.skip", || format!("select_iter({}, {}).skip(1).next() on {}", r, val, desc()), &guard(|| wm.select_iter(r, val).skip(1).next()), &rest.get(1).copied());
            ctx.expect_eq("wm.select_iter.count", || format!("select_iter({}, {}).count() on {}", r, val, desc()), &guard(|| wm.select_iter(r, val).count()), &rest.len());
            let hint = guard(|| wm.select_iter(r, val).size_hint());
            ctx.checks += 1;
            match hint {
                // A hint that disagrees with the items is recorded, not judged: C04 speaks about the items.
                Ok((lo, hi)) => if lo > rest.len() || hi.map(|h| h < rest.len()).unwrap_or(false) { ctx.count("info_unsound_size_hints", 1); },
                Err(p) => ctx.violation("wm.select_iter.size_hint!panic", format!("select_iter({}, {}).size_hint() panicked ({}) on {}", r, val, p, desc())),
            }
        }
    }
}

// Core mapping: position of V[i] in the stable sort by reversed bits; map_up inverts map_down.
pub fn check_core(ctx: &mut Ctx, core: &WMCore, v: &[u64], idx: &[usize], values: &[u64], label: &str) {
    let n = v.len();
    let desc = || format!("{} V[{}]={:?}", label, n, &v[..std::cmp::min(n, 24)]);
    let max = v.iter().copied().max().unwrap_or(0);
    let width = naive_bit_len(max);
    ctx.expect_eq("core.len", || format!("len() on {}", desc()), &guard(|| core.len()), &n);
    ctx.expect_eq("core.width", || format!("width() on {}", desc()), &guard(|| core.width()), &width);
    // Stable sort of indices by reversed bits.
    let mut order: Vec<usize> = (0..n).collect();
    order.sort_by_key(|i| rev_key(v[*i], width));
    let mut pos_of = vec![0usize; n];
    for (p, i) in order.iter().enumerate() { pos_of[*i] = p; }
    for &i in idx {
        let want = if i < n { Some((pos_of[i], v[i])) } else { None };
        ctx.expect_eq("core.map_down", || format!("map_down({}) on {}", i, desc()), &guard(|| core.map_down(i)), &want);
        if i < n {
            ctx.expect_eq("core.map_up_inverts", || format!("map_up_with(map_down({}), V[{}]) on {}", i, i, desc()), &guard(|| core.map_up_with(pos_of[i], v[i])), &Some(i));
        }
    }
    for &val in values {
        if val >> width != 0 { continue; }
        let before = v.iter().filter(|x| rev_key(**x, width) < rev_key(val, width)).count();
        for &i in idx {
            let c = v[..std::cmp::min(i, n)].iter().filter(|x| **x == val).count();
            ctx.expect_eq("core.map_down_with", || format!("map_down_with({}, {}) on {}", i, val, desc()), &guard(|| core.map_down_with(i, val)), &(before + c));
            let j = idx[(i + 1) % idx.len()];
            let c2 = v[..std::cmp::min(j, n)].iter().filter(|x| **x == val).count();
            ctx.expect_eq("core.map_down_with_two_positions", || format!("map_down_with_two_positions({}, {}, {}) on {}", i, j, val, desc()), &guard(|| core.map_down_with_two_positions(i, j, val)), &(before + c, before + c2));
        }
    }
}

fn all_args(n: usize) -> Vec<usize> { (0..n + 3).collect() }

fn small(ctx: &mut Ctx) {
    // All vectors of length <= 5 over values 0..4 and of length <= 4 over values 0..8 (thorough: one more each).
    let scopes: [(usize, u64); 2] = [(ctx.size(5, 6), 4), (ctx.size(4, 5), 8)];
    let types = [ItemType::U8, ItemType::U16, ItemType::U32, ItemType::U64, ItemType::Usize];
    let mut index = 0u64;
    for &(max_len, alphabet) in scopes.iter() {
        for len in 0..=max_len {
            for code in 0..alphabet.pow(len as u32) {
                index += 1;
                if !ctx.mine(index) { continue; }
                if !ctx.begin_case() { continue; }
                let mut v: Vec<u64> = Vec::new();
                let mut c = code;
                for _ in 0..len { v.push(c % alphabet); c /= alphabet; }
                let t = types[(index % 5) as usize];
                let idx = all_args(len);
                let mut values: Vec<u64> = (0..alphabet * 2 + 3).collect();
                values.push(u64::MAX); values.push(1 << 40);
                match build_wm(&v, t) {
                    Ok(wm) => check_wm(ctx, &wm, &v, &idx, &values, &format!("{:?}", t)),
                    Err(e) => ctx.violation("wm.construct", format!("WaveletMatrix::from panicked ({}) on {:?}", e, v)),
                }
                match build_core(&v, t) {
                    Ok(core) => check_core(ctx, &core, &v, &idx, &values, &format!("{:?}", t)),
                    Err(e) => ctx.violation("core.construct", format!("WMCore::from panicked ({}) on {:?}", e, v)),
                }
                let distinct = { let mut d = v.clone(); d.sort_unstable(); d.dedup(); d.len() };
                ctx.case(hash64(&[1, alphabet, len as u64, code]), distinct >= 2 || len <= 1);
                ctx.sample(|| format!("small: V={:?} item type {:?} x all indices 0..len+2 x values 0..{} and out-of-alphabet values", v, t, alphabet * 2 + 2));
            }
        }
    }
}

pub fn gen_vector(rng: &mut Rng, width: usize, len: usize, alphabet: usize, skew: usize) -> Vec<u64> {
    let top: u64 = if width >= 64 { u64::MAX } else { (1u64 << width) - 1 };
    // Symbol set.
    let symbols: Vec<u64> = match alphabet {
        0 => (0..=std::cmp::min(top, 300)).collect(),                                    // full (capped)
        1 => vec![top],                                                                   // one symbol (the max)
        2 => vec![top, top ^ (1u64 << (width - 1))],                                      // two symbols sharing low bits
        3 => { let mut s: Vec<u64> = (1..=std::cmp::min(top, 200)).filter(|x| x % 3 != 0).collect(); s.push(top); s }, // missing 0 and multiples of 3
        4 => { let half = 1u64 << (width - 1); vec![half, half.saturating_sub(1), 0] },  // max value exactly 2^(w-1): width boundary
        _ => { let k = 2 + rng.below(20); let mut s: Vec<u64> = (0..k).map(|_| rng.next_u64() & top).collect(); s.push(top); s },
    };
    let mut v: Vec<u64> = Vec::with_capacity(len);
    for i in 0..len {
        let s = match skew {
            0 => symbols[rng.below(symbols.len())],
            1 => { let mut k = 0; while k + 1 < symbols.len() && rng.chance(1, 2) { k += 1; } symbols[k] }, // geometric
            2 => symbols[(i * symbols.len()) / std::cmp::max(len, 1)],                   // sorted
            _ => symbols[symbols.len() - 1 - (i * symbols.len()) / std::cmp::max(len, 1)], // reverse sorted
        };
        v.push(s);
    }
    // Make sure the intended maximum is present so that the width is the intended one.
    if len > 0 && !v.contains(&symbols[symbols.len() - 1]) && alphabet != 4 { let p = rng.below(len); v[p] = *symbols.iter().max().unwrap(); }
    v
}

fn generated(ctx: &mut Ctx) {
    let lengths = [0usize, 1, 2, 63, 64, 65, 300, 5000];
    let mut index = 0u64;
    let reps = ctx.size(1, 4);
    for width in 1..=16usize {
        for &len in lengths.iter() {
            for alphabet in 0..6usize {
                for skew in 0..4usize {
                    if len <= 2 && skew > 0 { continue; }
                    if len == 5000 && ctx.quick() && (alphabet + skew + width) % 3 != 0 { continue; }
                    for rep in 0..reps {
                        index += 1;
                        if !ctx.mine(index) { continue; }
                        if !ctx.begin_case() { continue; }
                        let mut rng = ctx.rng(0xC4_0000 + index);
                        let v = gen_vector(&mut rng, width, len, alphabet, skew);
                        let t = match (index + rep as u64) % 5 { 0 if width <= 8 => ItemType::U8, 1 => ItemType::U16, 2 => ItemType::U32, 3 => ItemType::U64, _ => ItemType::Usize };
                        let idx: Vec<usize> = if len <= 300 { all_args(len) } else {
                            let mut x: Vec<usize> = vec![0, 1, 63, 64, 65, len / 2, len - 1, len, len + 1, len + 2];
                            for _ in 0..30 { x.push(rng.below(len + 2)); }
                            x.sort_unstable(); x.dedup(); x
                        };
                        // Values: present ones (sample), absent ones, alphabet boundary and beyond.
                        let mut present: Vec<u64> = v.clone(); present.sort_unstable(); present.dedup();
                        let top: u64 = (1u64 << width) - 1;
                        let mut values: Vec<u64> = Vec::new();
                        let stepv = std::cmp::max(1, present.len() / 12);
                        values.extend(present.iter().step_by(stepv));
                        if let Some(l) = present.last() { values.push(*l); values.push(l + 1); values.push(l.saturating_sub(1)); }
                        values.extend_from_slice(&[0, 1, top, top + 1, top + 2, top + 3, 1u64 << 20, u64::MAX]);
                        for _ in 0..4 { values.push(rng.next_u64() & top); }
                        values.sort_unstable(); values.dedup();
                        match build_wm(&v, t) {
                            Ok(wm) => check_wm(ctx, &wm, &v, &idx, &values, &format!("{:?}", t)),
                            Err(e) => ctx.violation("wm.construct", format!("WaveletMatrix::from panicked ({}) on width {} len {}", e, width, len)),
                        }
                        if len <= 300 {
                            match build_core(&v, t) {
                                Ok(core) => check_core(ctx, &core, &v, &idx, &values, &format!("{:?}", t)),
                                Err(e) => ctx.violation("core.construct", format!("WMCore::from panicked ({}) on width {} len {}", e, width, len)),
                            }
                        }
                        ctx.case(hash64(&[2, width as u64, len as u64, alphabet as u64, skew as u64, t as u64, hash64(&v[..std::cmp::min(v.len(), 200)])]), present.len() >= 2 || len <= 2);
                        ctx.sample(|| format!("gen: width={} len={} alphabet-shape={} skew={} item type {:?} distinct symbols={} idx_args={} value_args={}", width, len, alphabet, skew, t, present.len(), idx.len(), values.len()));
                    }
                }
            }
        }
    }
}

// Vectors long enough, and skewed enough, for the level bitvectors to have long select superblocks (fewer than 4096 ones -
// or zeros - per bit_len(len)^4 positions), several in a row, for ones and for zeros: the levels are plain bitvectors, but
// the matrix reaches their select structures only through map_up.
fn big(ctx: &mut Ctx) {
    if cfg!(miri) { return; }
    // (length, width, percent of items that differ from the common value x 10, common value is the largest)
    let mut configs: Vec<(usize, usize, usize, bool)> = vec![(450_000, 3, 20, false), (450_000, 3, 20, true), (700_000, 5, 15, false), (300_000, 2, 25, true)];
    if !ctx.quick() { configs.extend_from_slice(&[(1_200_000, 4, 10, false), (1_200_000, 4, 10, true), (200_000, 1, 20, false), (200_000, 1, 20, true), (900_000, 8, 25, false), (524_288, 3, 15, true), (524_287, 6, 15, false), (2_100_000, 2, 8, true)]); }
    for (ci, &(len, width, permille, high_common)) in configs.iter().enumerate() {
        if !ctx.mine(ci as u64) { continue; }
        if !ctx.begin_case() { continue; }
        let mut rng = ctx.rng(0xC4_B000 + ci as u64);
        let top = (1u64 << width) - 1;
        let common = if high_common { top } else { 0 };
        // Rare items come in three flavours: spread evenly, in bursts, and one long stretch of a single rare value.
        let mut v: Vec<u64> = vec![common; len];
        let mut i = 0usize;
        while i < len {
            if rng.below(1000) < permille {
                let burst = if rng.chance(1, 50) { 1 + rng.below(40) } else { 1 };
                for j in i..std::cmp::min(len, i + burst) { let mut x = rng.next_u64() & top; if x == common { x ^= 1; } v[j] = x; }
                i += burst;
            } else { i += 1; }
        }
        let stretch = len / 3 + rng.below(1000);
        for j in stretch..std::cmp::min(len, stretch + 5000) { v[j] = common ^ 1; }
        let t = match ci % 4 { 0 if width <= 8 => ItemType::U8, 1 => ItemType::U16, 2 => ItemType::U64, _ => ItemType::Usize };
        let mut idx: Vec<usize> = vec![0, 1, 63, 64, 65, len / 2, len - 1, len, len + 1, len + 2, stretch, stretch + 4096, stretch + 5000];
        for _ in 0..60 { idx.push(rng.below(len + 2)); }
        idx.sort_unstable(); idx.dedup();
        let mut values: Vec<u64> = (0..=std::cmp::min(top, 40)).collect();
        values.extend_from_slice(&[top, top + 1, u64::MAX]);
        values.sort_unstable(); values.dedup();
        // What the definition says about the first level: how many long superblocks its rare bit has.
        let bl = 64 - (len as u64).leading_zeros() as usize;
        let log4 = bl * bl * bl * bl;
        let rare: Vec<usize> = (0..len).filter(|j| ((v[*j] >> (width - 1)) & 1 == 1) != high_common).collect();
        let mut long = 0u64;
        let mut r = 0; while r < rare.len() { let lim = if r + 4096 < rare.len() { rare[r + 4096] } else { len }; if lim - rare[r] >= log4 { long += 1; } r += 4096; }
        ctx.count(if high_common { "big.model_long_superblocks_first_level_zeros" } else { "big.model_long_superblocks_first_level_ones" }, long);
        match build_wm(&v, t) {
            Ok(wm) => check_wm(ctx, &wm, &v, &idx, &values, &format!("big {:?}", t)),
            Err(e) => ctx.violation("wm.construct", format!("WaveletMatrix::from panicked ({}) on width {} len {}", e, width, len)),
        }
        ctx.case(hash64(&[3, width as u64, len as u64, permille as u64, high_common as u64, hash64(&v[..2000])]), true);
        ctx.sample(|| format!("big: len={} width={} common value {} ({} permille differ, in singles, bursts and one stretch of 5000), item type {:?}; first level has {} long select superblocks on the rare side; idx_args={} value_args={}", len, width, common, permille, t, long, idx.len(), values.len()));
    }
}
