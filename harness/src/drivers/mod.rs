use crate::util::Ctx;

pub mod c01;
pub mod c02;
pub mod c03;
pub mod c04;
pub mod c15;
pub mod c05;
pub mod c09;
pub mod c17;

pub fn run(name: &str, ctx: &mut Ctx) -> bool {
    match name {
        "selftest" => {},
        "c01" => c01::run(ctx),
        "c02" => c02::run(ctx),
        "c03" => c03::run(ctx),
        "c04" => c04::run(ctx),
        "c15" => c15::run(ctx),
        "c05" => c05::run(ctx),
        "c09" => c09::run(ctx),
        "c17" => c17::run(ctx),
        _ => return false,
    }
    true
}
