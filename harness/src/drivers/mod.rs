use crate::util::Ctx;

pub mod c01;

pub fn run(name: &str, ctx: &mut Ctx) -> bool {
    match name {
        "selftest" => {},
        "c01" => c01::run(ctx),
        _ => return false,
    }
    true
}
