// C14: truncated input and failed writes are always reported, never accepted (fault enumeration).
//
// Parts: load (every byte prefix x 3 reader behaviours), skip (skip_option on every prefix), sink (every write budget x
// 3 sink behaviours), maps (every element truncation of mapped files), writers (child process per RLIMIT_FSIZE value).

use simple_sds::bit_vector::{BitVector, Identity};
use simple_sds::bit_vector::rank_support::RankSupport;
use simple_sds::bit_vector::select_support::SelectSupport;
use simple_sds::int_vector::{IntVector, IntVectorWriter};
use simple_sds::ops::{Push, Rank, Select, SelectZero};
use simple_sds::raw_vector::{RawVector, RawVectorWriter, PushRaw};
use simple_sds::serialize::{self, MappingMode, MemoryMap, Serialize};
use simple_sds::wavelet_matrix::WaveletMatrix;
use simple_sds::wavelet_matrix::wm_core::WMCore;

use std::collections::BTreeMap;
use std::io::{self, Read, Write};

use crate::drivers::c13::{view, Item};
use crate::mk;
use crate::models::SetModel;
use crate::util::{guard, hash64, hash_bytes, Ctx, Rng};

pub fn run(ctx: &mut Ctx) {
    let part = ctx.part.clone();
    if part.is_empty() || part == "load" { load_prefixes(ctx); }
    if part.is_empty() || part == "skip" { skip_prefixes(ctx); }
    if part.is_empty() || part == "sink" { failing_sinks(ctx); }
    if !cfg!(miri) && (part.is_empty() || part == "maps") { truncated_maps(ctx); }
    if !cfg!(miri) && (part.is_empty() || part == "writers") { limited_writers(ctx); }
    if !cfg!(miri) && (part.is_empty() || part == "files") { failing_files(ctx); }
}

pub struct Inst {
    pub name: String,
    pub bytes: Vec<u8>,
    pub load: Box<dyn Fn(&mut dyn Read) -> io::Result<()>>,
    pub ser: Box<dyn Fn(&mut dyn Write) -> io::Result<()>>,
    pub to_file: Box<dyn Fn(&str) -> io::Result<()>>,
}

pub fn inst<T: Serialize + 'static>(name: &str, x: T) -> Inst {
    let mut bytes: Vec<u8> = Vec::new();
    x.serialize(&mut bytes).unwrap();
    let x = std::rc::Rc::new(x);
    let y = x.clone();
    let z = x.clone();
    Inst {
        name: name.to_string(),
        bytes,
        load: Box::new(move |r: &mut dyn Read| { let mut r = r; T::load(&mut r).map(|_| ()) }),
        ser: Box::new(move |w: &mut dyn Write| { let mut w = w; y.serialize(&mut w) }),
        to_file: Box::new(move |path: &str| serialize::serialize_to(&*z, path)),
    }
}

// One instance of every serializable type (sizes <= ~4 KiB), plus empty ones.
pub fn instances(rng: &mut Rng, small: bool) -> Vec<Inst> {
    let k = if small { 1 } else { 4 };
    let bits: Vec<bool> = (0..97 * k).map(|_| rng.chance(1, 3)).collect();
    let m = SetModel::from_bits(&bits);
    let mut bv = mk::bv_set_bit(&bits);
    let plain = bv.clone();
    bv.enable_rank(); bv.enable_select(); bv.enable_select_zero();
    let mut bv_rank_only = mk::bv_set_bit(&bits);
    bv_rank_only.enable_rank();
    let mut iv = IntVector::new(13).unwrap();
    for _ in 0..21 * k { iv.push(rng.next_u64()); }
    let values: Vec<u64> = (0..40 * k).map(|_| rng.next_u64() % 11).collect();
    let mut runs: Vec<(usize, usize)> = Vec::new();
    let mut pos = 0usize;
    for _ in 0..(if small { 12 } else { 330 }) { let g = 1 + rng.below(9); let l = 1 + rng.below(9); runs.push((pos + g, l)); pos += g + l; }
    let mut v: Vec<Inst> = vec![
        inst("u64", 0x0123_4567_89AB_CDEFu64),
        inst("pair", (7u64, 9u64)),
        inst("Vec<u64>", (0..9u64).collect::<Vec<u64>>()),
        inst("Vec<(u64,u64)>", vec![(1u64, 2u64), (3, 4), (5, 6)]),
        inst("Vec<u8>", (0..13u8).collect::<Vec<u8>>()),
        inst("String", "héllo wörld, 21 bytes".to_string()),
        inst("Option<Vec<u64>>=Some", Some(vec![1u64, 2, 3, 4, 5])),
        inst("Option<Option<String>>=Some", Some(Some("nested".to_string()))),
        inst("RawVector", mk::raw_set_bit(&bits)),
        inst("IntVector", iv),
        inst("BitVector/no supports", plain.clone()),
        inst("BitVector/rank", bv_rank_only),
        inst("BitVector/all supports", bv),
        inst("RankSupport", RankSupport::new(&plain)),
        inst("SelectSupport", SelectSupport::<Identity>::new(&plain)),
        inst("SparseVector", mk::sparse_set(m.n, &m.ones).unwrap()),
        inst("SparseVector/multiset", mk::multiset_set(50, &[3, 3, 3, 17, 40, 40]).unwrap()),
        inst("RLVector", mk::rl_runs(pos + 5, &runs).unwrap()),
        inst("WMCore", WMCore::from(values.clone())),
        inst("WaveletMatrix", WaveletMatrix::from(values)),
        inst("Option<BitVector>=Some", Some(plain)),
    ];
    // Empty instances.
    v.push(inst("Vec<u64>/empty", Vec::<u64>::new()));
    v.push(inst("Vec<u8>/empty", Vec::<u8>::new()));
    v.push(inst("String/empty", String::new()));
    v.push(inst("RawVector/empty", RawVector::new()));
    v.push(inst("IntVector/empty", IntVector::new(9).unwrap()));
    v.push(inst("BitVector/empty", BitVector::from(RawVector::new())));
    v.push(inst("SparseVector/empty", mk::sparse_set(0, &[]).unwrap()));
    v.push(inst("RLVector/empty", mk::rl_runs(0, &[]).unwrap()));
    v.push(inst("WaveletMatrix/empty", WaveletMatrix::from(Vec::<u64>::new())));
    v
}

struct OneByte<'a> { data: &'a [u8], pos: usize }
impl<'a> Read for OneByte<'a> {
    fn read(&mut self, buf: &mut [u8]) -> io::Result<usize> {
        if buf.is_empty() || self.pos >= self.data.len() { return Ok(0); }
        buf[0] = self.data[self.pos];
        self.pos += 1;
        Ok(1)
    }
}

struct InterruptedOnce<'a> { data: &'a [u8], pos: usize, at: usize, fired: bool }
impl<'a> Read for InterruptedOnce<'a> {
    fn read(&mut self, buf: &mut [u8]) -> io::Result<usize> {
        if !self.fired && self.pos >= self.at { self.fired = true; return Err(io::Error::new(io::ErrorKind::Interrupted, "interrupted")); }
        let n = std::cmp::min(buf.len(), self.data.len() - self.pos);
        let n = if !self.fired { std::cmp::min(n, std::cmp::max(1, self.at - self.pos)) } else { n };
        buf[..n].copy_from_slice(&self.data[self.pos..self.pos + n]);
        self.pos += n;
        Ok(n)
    }
}

fn load_prefixes(ctx: &mut Ctx) {
    let mut rng = Rng::new(ctx.seed ^ 0xC14);
    let insts = instances(&mut rng, ctx.quick() || cfg!(miri));
    let mut index = 0u64;
    let mut points = 0u64;
    for it in insts.iter() {
        index += 1;
        if !ctx.mine(index) { continue; }
        if !ctx.begin_case() { continue; }
        let size = it.bytes.len();
        // The complete stream must load (sanity of the harness, in all three reader behaviours).
        for mode in 0..3 {
            let r = guard(|| run_load(it, &it.bytes, mode, size / 2));
            ctx.checks += 1;
            if r != Ok(true) { ctx.violation("load.complete", format!("{}: the complete {}-byte stream does not load with reader behaviour {} ({:?})", it.name, size, mode, r)); }
        }
        let stride = if cfg!(miri) { std::cmp::max(1, size / 40) } else { 1 };
        let mut cut = 0;
        while cut < size {
            for mode in 0..3 {
                if mode == 1 && cut > 600 && cut % 7 != 0 && !cfg!(miri) { continue; } // 1-byte reader is quadratic: thin it out on long streams
                points += 1;
                ctx.checks += 1;
                match guard(|| run_load(it, &it.bytes[..cut], mode, cut / 2)) {
                    Ok(false) => {},
                    Ok(true) => ctx.violation(&format!("load.prefix.accepted.{}", it.name), format!("{}: load returned Ok on the first {} of {} bytes (reader behaviour {})", it.name, cut, size, mode)),
                    Err(p) => ctx.violation(&format!("load.prefix!panic.{}", it.name), format!("{}: load panicked ({}) on the first {} of {} bytes (reader behaviour {})", it.name, p, cut, size, mode)),
                }
            }
            cut += stride;
        }
        ctx.case(hash64(&[1, hash_bytes(it.name.as_bytes()), size as u64]), true);
        ctx.sample(|| format!("load: {} ({} bytes): every byte prefix 0..{} x [slice reader, 1-byte reader, Interrupted-once reader]", it.name, size, size));
    }
    ctx.count("fault_points.load", points);
}

fn run_load(it: &Inst, data: &[u8], mode: usize, at: usize) -> bool {
    match mode {
        0 => { let mut r: &[u8] = data; (it.load)(&mut r).is_ok() },
        1 => { let mut r = OneByte { data, pos: 0 }; (it.load)(&mut r).is_ok() },
        _ => { let mut r = InterruptedOnce { data, pos: 0, at, fired: false }; (it.load)(&mut r).is_ok() },
    }
}

fn skip_prefixes(ctx: &mut Ctx) {
    let mut rng = Rng::new(ctx.seed ^ 0xC14_1);
    let insts = instances(&mut rng, true);
    let mut index = 0u64;
    let mut points = 0u64;
    for it in insts.iter() {
        index += 1;
        if !ctx.mine(index) { continue; }
        if !ctx.begin_case() { continue; }
        // The instance as an optional structure: length element + body, followed by a sentinel.
        let elements = (it.bytes.len() / 8) as u64;
        let mut stream: Vec<u8> = Vec::new();
        stream.extend_from_slice(&elements.to_le_bytes());
        stream.extend_from_slice(&it.bytes);
        let opt_len = stream.len();
        stream.extend_from_slice(&0xFEED_FACE_CAFE_BEEFu64.to_le_bytes());
        // Complete: Ok and positioned exactly on the sentinel.
        let r = guard(|| { let mut r: &[u8] = &stream; let ok = serialize::skip_option(&mut r).is_ok(); (ok, stream.len() - r.len()) });
        ctx.expect_eq("skip_option.complete", || format!("skip_option over Some({}) -> (Ok, bytes consumed)", it.name), &r, &(true, opt_len));
        let stride = if cfg!(miri) { std::cmp::max(1, opt_len / 40) } else { 1 };
        let mut cut = 0;
        while cut < opt_len {
            if elements == 0 && cut >= 8 { break; }
            points += 1;
            ctx.checks += 1;
            for mode in 0..2 {
                let r = guard(|| if mode == 0 { let mut r: &[u8] = &stream[..cut]; serialize::skip_option(&mut r).is_ok() } else { let mut r = OneByte { data: &stream[..cut], pos: 0 }; serialize::skip_option(&mut r).is_ok() });
                match r {
                    Ok(false) => {},
                    Ok(true) => ctx.violation("skip_option.prefix.accepted", format!("skip_option returned Ok on the first {} of {} bytes of Some({}) (reader behaviour {})", cut, opt_len, it.name, mode)),
                    Err(p) => ctx.violation("skip_option.prefix!panic", format!("skip_option panicked ({}) on the first {} of {} bytes of Some({})", p, cut, opt_len, it.name)),
                }
            }
            cut += stride;
        }
        ctx.case(hash64(&[2, hash_bytes(it.name.as_bytes())]), true);
        ctx.sample(|| format!("skip: Some({}) as an optional of {} bytes: skip_option on every prefix", it.name, opt_len));
    }
    ctx.count("fault_points.skip", points);
}

struct Sink { budget: usize, mode: usize, accepted: Vec<u8> }
impl Write for Sink {
    fn write(&mut self, buf: &[u8]) -> io::Result<usize> {
        let room = self.budget - self.accepted.len();
        if room == 0 {
            return match self.mode { 2 => Ok(0), _ => Err(io::Error::new(io::ErrorKind::Other, "sink failed")) };
        }
        let n = match self.mode {
            0 => std::cmp::min(buf.len(), room),
            _ => std::cmp::min(std::cmp::min(buf.len(), room), 3), // short writes
        };
        self.accepted.extend_from_slice(&buf[..n]);
        Ok(n)
    }
    fn flush(&mut self) -> io::Result<()> { Ok(()) }
}

fn failing_sinks(ctx: &mut Ctx) {
    let mut rng = Rng::new(ctx.seed ^ 0xC14_2);
    let insts = instances(&mut rng, ctx.quick() || cfg!(miri));
    let mut index = 0u64;
    let mut points = 0u64;
    for it in insts.iter() {
        index += 1;
        if !ctx.mine(index) { continue; }
        if !ctx.begin_case() { continue; }
        let size = it.bytes.len();
        let stride = if cfg!(miri) { std::cmp::max(1, size / 40) } else { 1 };
        let mut budget = 0;
        while budget < size {
            for mode in 0..3 {
                if mode == 1 && budget > 600 && budget % 7 != 0 { continue; }
                points += 1;
                ctx.checks += 1;
                let mut sink = Sink { budget, mode, accepted: Vec::new() };
                let r = guard(|| (it.ser)(&mut sink).is_ok());
                match r {
                    Ok(false) => {
                        if sink.accepted[..] != it.bytes[..sink.accepted.len()] {
                            ctx.violation("serialize.sink.not_prefix", format!("{}: bytes accepted before the failure are not a prefix of the serialization (budget {}, sink behaviour {})", it.name, budget, mode));
                        }
                    },
                    Ok(true) => ctx.violation(&format!("serialize.sink.accepted.{}", it.name), format!("{}: serialize returned Ok although the sink failed after {} of {} bytes (sink behaviour {})", it.name, budget, size, mode)),
                    Err(p) => ctx.violation("serialize.sink!panic", format!("{}: serialize panicked ({}) with a sink that fails after {} bytes", it.name, p, budget)),
                }
            }
            budget += stride;
        }
        // A sink with exactly enough room succeeds.
        let mut sink = Sink { budget: size, mode: 1, accepted: Vec::new() };
        let r = guard(|| (it.ser)(&mut sink).is_ok());
        ctx.checks += 1;
        if r != Ok(true) || sink.accepted != it.bytes { ctx.violation("serialize.sink.complete", format!("{}: serialize into a sink with exactly {} bytes of room: {:?}", it.name, size, r)); }
        ctx.case(hash64(&[3, hash_bytes(it.name.as_bytes()), size as u64]), true);
        ctx.sample(|| format!("sink: {} ({} bytes): every write budget 0..{} x [Err at budget, short writes then Err, Ok(0)]", it.name, size, size));
    }
    ctx.count("fault_points.sink", points);
}

fn truncated_maps(ctx: &mut Ctx) {
    let cases = ctx.size(12, 120);
    let mut points = 0u64;
    for c in 0..cases {
        if !ctx.begin_case() { continue; }
        let mut rng: Rng = ctx.rng(0xC14_300 + c as u64);
        let count = 1 + rng.below(5);
        let items: Vec<Item> = (0..count).map(|_| Item::random(&mut rng, true)).collect();
        let mut bytes: Vec<u8> = Vec::new();
        let mut offsets: Vec<usize> = Vec::new();
        for it in items.iter() { offsets.push(bytes.len() / 8); it.write(&mut bytes); }
        let total = bytes.len() / 8;
        offsets.push(total);
        let name = format!("{}/vmon-c14-{}-{}-{}", ctx.tmpdir, std::process::id(), ctx.shard, c);
        // Byte-granular cuts inside an element: the map itself may be refused; if it is granted, no cut structure may be.
        for k in 1..total {
            let cut = k * 8 - 1 - (k % 7);
            std::fs::write(&name, &bytes[..cut]).unwrap();
            if let Ok(Ok(map)) = guard(|| MemoryMap::new(&name, MappingMode::ReadOnly)) {
                for (i, it) in items.iter().enumerate() {
                    if offsets[i + 1] * 8 <= cut { continue; }
                    points += 1;
                    ctx.checks += 1;
                    match guard(|| view(&map, offsets[i], it)) {
                        Ok(Err(_)) => {},
                        Ok(Ok(r)) => ctx.violation(&format!("view.truncated.accepted.{}", it.kind()), format!("view of {} (bytes {}..{}) granted ({:?}) on a file cut to {} bytes (inside an element)", it.kind(), offsets[i] * 8, offsets[i + 1] * 8, r, cut)),
                        Err(p) => ctx.violation(&format!("view.truncated!panic.{}", it.kind()), format!("view of {} panicked ({}) on a file cut to {} bytes", it.kind(), p, cut)),
                    }
                }
            }
        }
        for k in 1..total {
            std::fs::write(&name, &bytes[..k * 8]).unwrap();
            if let Ok(Ok(map)) = guard(|| MemoryMap::new(&name, MappingMode::ReadOnly)) {
                for (i, it) in items.iter().enumerate() {
                    if offsets[i + 1] <= k { continue; }
                    points += 1;
                    ctx.checks += 1;
                    match guard(|| view(&map, offsets[i], it)) {
                        Ok(Err(_)) => {},
                        Ok(Ok(r)) => ctx.violation(&format!("view.truncated.accepted.{}", it.kind()), format!("view of {} (elements {}..{}) granted ({:?}) on a file cut to {} elements", it.kind(), offsets[i], offsets[i + 1], r, k)),
                        Err(p) => ctx.violation(&format!("view.truncated!panic.{}", it.kind()), format!("view of {} (elements {}..{}) panicked ({}) on a file cut to {} elements", it.kind(), offsets[i], offsets[i + 1], p, k)),
                    }
                }
            }
        }
        let _ = std::fs::remove_file(&name);
        ctx.case(hash64(&[4, hash_bytes(&bytes)]), true);
        ctx.sample(|| format!("maps: {:?} ({} elements): every element truncation x every structure it cuts", items.iter().map(|i| i.kind()).collect::<Vec<_>>(), total));
    }
    ctx.count("fault_points.maps", points);
}

//-----------------------------------------------------------------------------
// Writers under a file-size limit: one child process per limit.

fn writer_config(kind: &str, width: usize, buf: usize, count: usize) -> (Vec<u8>, usize) {
    // Expected complete file, and the number of pushes.
    if kind == "int" {
        let mut iv = IntVector::new(width).unwrap();
        for i in 0..count { iv.push(pattern(i)); }
        let mut b = Vec::new(); iv.serialize(&mut b).unwrap();
        let _ = buf;
        (b, count)
    } else {
        let mut raw = RawVector::new();
        for i in 0..count { unsafe { raw.push_int(pattern(i), width); } }
        let mut b = Vec::new(); raw.serialize(&mut b).unwrap();
        (b, count)
    }
}

fn pattern(i: usize) -> u64 { (i as u64 + 1).wrapping_mul(0x9E37_79B9_7F4A_7C15) | 1 }

// Child entry point: applies the limit, runs the writer, reports the outcome on stdout.
pub fn child(kv: &BTreeMap<String, String>) -> ! {
    let get = |k: &str| kv.get(k).cloned().unwrap_or_default();
    let kind = get("kind");
    if kind == "serialize_to" {
        // serialize_to(<instance k of the deterministic list>, file) under RLIMIT_FSIZE.
        let k: usize = get("k").parse().unwrap();
        let seed: u64 = get("seed").parse().unwrap();
        let limit: u64 = get("limit").parse().unwrap();
        let file = get("file");
        let mut rng = Rng::new(seed);
        let list = file_instances(&mut rng);
        unsafe {
            libc::signal(libc::SIGXFSZ, libc::SIG_IGN);
            let lim = libc::rlimit { rlim_cur: limit as libc::rlim_t, rlim_max: limit as libc::rlim_t };
            if libc::setrlimit(libc::RLIMIT_FSIZE, &lim) != 0 { println!("OUTCOME harness_error setrlimit"); std::process::exit(3); }
        }
        crate::util::install_panic_hook();
        let r = guard(|| (list[k].to_file)(&file));
        println!("OUTCOME {}", match r { Ok(Ok(())) => "ok", Ok(Err(_)) => "err", Err(_) => "panic" });
        std::process::exit(0);
    }
    let width: usize = get("width").parse().unwrap();
    let buf: usize = get("buf").parse().unwrap();
    let count: usize = get("count").parse().unwrap();
    let limit: u64 = get("limit").parse().unwrap();
    let file = get("file");
    let transient = get("transient") == "1";
    let mut hard: libc::rlim_t = limit as libc::rlim_t;
    unsafe {
        libc::signal(libc::SIGXFSZ, libc::SIG_IGN);
        if transient {
            // Only the soft limit is lowered, so that it can be lifted again half-way through the pushes.
            let mut cur = libc::rlimit { rlim_cur: 0, rlim_max: 0 };
            libc::getrlimit(libc::RLIMIT_FSIZE, &mut cur);
            hard = cur.rlim_max;
        }
        let lim = libc::rlimit { rlim_cur: limit as libc::rlim_t, rlim_max: hard };
        if libc::setrlimit(libc::RLIMIT_FSIZE, &lim) != 0 { println!("OUTCOME harness_error setrlimit"); std::process::exit(3); }
    }
    crate::util::install_panic_hook();
    if transient {
        // The file-size limit bites during the first half of the pushes and is gone for the second half. A push that panics
        // has reported the failure; if none does, close() must either fail or leave the complete file.
        let lift = || unsafe { let lim = libc::rlimit { rlim_cur: hard, rlim_max: hard }; libc::setrlimit(libc::RLIMIT_FSIZE, &lim); };
        let outcome: String = if kind == "int" {
            match IntVectorWriter::with_buf_len(&file, width, buf) {
                Err(_) => "ctor_err".to_string(),
                Ok(mut w) => {
                    let first = guard(|| { for i in 0..count / 2 { w.push(pattern(i)); } });
                    lift();
                    let second = guard(|| { for i in count / 2..count { w.push(pattern(i)); } });
                    if first.is_err() || second.is_err() { std::mem::forget(w); "push_panic".to_string() } else { match w.close() { Ok(()) => "close_ok".to_string(), Err(_) => { std::mem::forget(w); "close_err".to_string() } } }
                },
            }
        } else {
            let mut header: Vec<u64> = Vec::new();
            match RawVectorWriter::with_buf_len(&file, &mut header, buf) {
                Err(_) => "ctor_err".to_string(),
                Ok(mut w) => {
                    let first = guard(|| { for i in 0..count / 2 { unsafe { w.push_int(pattern(i), width); } } });
                    lift();
                    let second = guard(|| { for i in count / 2..count { unsafe { w.push_int(pattern(i), width); } } });
                    if first.is_err() || second.is_err() { std::mem::forget(w); "push_panic".to_string() } else { match w.close() { Ok(()) => "close_ok".to_string(), Err(_) => { std::mem::forget(w); "close_err".to_string() } } }
                },
            }
        };
        println!("OUTCOME {}", outcome);
        std::process::exit(0);
    }
    let outcome: String = if kind == "int" {
        match IntVectorWriter::with_buf_len(&file, width, buf) {
            Err(_) => "ctor_err".to_string(),
            Ok(mut w) => {
                let pushed = guard(|| { for i in 0..count { w.push(pattern(i)); } });
                // The failure has been reported once (panic / Err); a later close() must not turn it into success.
                if pushed.is_err() { let later = guard(|| w.close().is_ok()); std::mem::forget(w); if later == Ok(true) { "push_panic_then_close_ok".to_string() } else { "push_panic".to_string() } }
                else { match w.close() { Ok(()) => "close_ok".to_string(), Err(_) => { let again = guard(|| w.close().is_ok()); std::mem::forget(w); if again == Ok(true) { "close_err_then_close_ok".to_string() } else { "close_err".to_string() } } } }
            },
        }
    } else {
        let mut header: Vec<u64> = Vec::new();
        match RawVectorWriter::with_buf_len(&file, &mut header, buf) {
            Err(_) => "ctor_err".to_string(),
            Ok(mut w) => {
                let pushed = guard(|| { for i in 0..count { unsafe { w.push_int(pattern(i), width); } } });
                if pushed.is_err() { let later = guard(|| w.close().is_ok()); std::mem::forget(w); if later == Ok(true) { "push_panic_then_close_ok".to_string() } else { "push_panic".to_string() } }
                else { match w.close() { Ok(()) => "close_ok".to_string(), Err(_) => { let again = guard(|| w.close().is_ok()); std::mem::forget(w); if again == Ok(true) { "close_err_then_close_ok".to_string() } else { "close_err".to_string() } } } }
            },
        }
    };
    println!("OUTCOME {}", outcome);
    std::process::exit(0);
}

fn limited_writers(ctx: &mut Ctx) {
    let exe = match std::env::current_exe() { Ok(e) => e, Err(e) => { ctx.inconclusive(format!("current_exe: {}", e)); return; } };
    // (kind, width, buffer, pushes)
    let mut configs: Vec<(&str, usize, usize, usize)> = vec![("int", 13, 4, 40), ("int", 64, 1, 20), ("raw", 7, 64, 60), ("int", 1, 100, 500), ("raw", 64, 128, 30), ("int", 31, 32, 71)];
    if !ctx.quick() { configs.extend_from_slice(&[("int", 8, 0, 300), ("raw", 33, 200, 150), ("int", 17, 1000, 900), ("raw", 1, 64, 2000), ("int", 40, 7, 400)]); }
    let mut outcomes: BTreeMap<String, u64> = BTreeMap::new();
    let mut points = 0u64;
    for (ci, &(kind, width, buf, count)) in configs.iter().enumerate() {
        if !ctx.mine(ci as u64) { continue; }
        if !ctx.begin_case() { continue; }
        let (expected, _) = writer_config(kind, width, buf, count);
        let size = expected.len();
        let step = if size <= 512 { 1 } else { 8 };
        let file = format!("{}/vmon-c14w-{}-{}-{}", ctx.tmpdir, std::process::id(), ctx.shard, ci);
        let mut limit = 0usize;
        while limit <= size + 8 {
            points += 1;
            let _ = std::fs::remove_file(&file);
            let out = std::process::Command::new(&exe)
                .args(["c14child", &format!("kind={}", kind), &format!("width={}", width), &format!("buf={}", buf), &format!("count={}", count), &format!("limit={}", limit), &format!("file={}", file)])
                .output();
            ctx.checks += 1;
            match out {
                Err(e) => { ctx.inconclusive(format!("could not spawn the writer child: {}", e)); break; },
                Ok(o) => {
                    let text = String::from_utf8_lossy(&o.stdout).to_string();
                    let outcome = text.lines().find(|l| l.starts_with("OUTCOME ")).map(|l| l[8..].to_string()).unwrap_or_else(|| format!("no_outcome(status {:?})", o.status.code()));
                    *outcomes.entry(outcome.clone()).or_insert(0) += 1;
                    let on_disk = std::fs::read(&file).unwrap_or_default();
                    let what = || format!("{} writer width {} buf {} pushes {} (complete file {} bytes) under RLIMIT_FSIZE {}", kind, width, buf, count, size, limit);
                    match outcome.as_str() {
                        "close_ok" => {
                            if on_disk != expected {
                                ctx.violation(&format!("writer.limit.reported_success.{}", kind), format!("{}: close() returned Ok but the file has {} bytes{}", what(), on_disk.len(), if on_disk.len() == size { " (content differs)" } else { "" }));
                            }
                        },
                        "ctor_err" | "push_panic" | "close_err" => {
                            if limit >= size { ctx.violation(&format!("writer.limit.spurious_failure.{}", kind), format!("{}: outcome {} although the limit allows the whole file", what(), outcome)); }
                        },
                        "push_panic_then_close_ok" | "close_err_then_close_ok" => {
                            if on_disk != expected {
                                ctx.violation(&format!("writer.limit.success_after_failure.{}", kind), format!("{}: {} - a close() after the reported failure returned Ok but the file has {} of {} bytes", what(), outcome, on_disk.len(), size));
                            }
                        },
                        _ => { ctx.inconclusive(format!("{}: child gave {}", what(), outcome)); },
                    }
                },
            }
            limit += step;
        }
        let _ = std::fs::remove_file(&file);
        // The same writer onto a device that accepts the open and refuses every write (ENOSPC), with no size limit.
        if std::path::Path::new("/dev/full").exists() {
            points += 1;
            ctx.checks += 1;
            let out = std::process::Command::new(&exe)
                .args(["c14child", &format!("kind={}", kind), &format!("width={}", width), &format!("buf={}", buf), &format!("count={}", count), "limit=1000000000", "file=/dev/full"])
                .output();
            match out {
                Err(e) => ctx.inconclusive(format!("could not spawn the writer child: {}", e)),
                Ok(o) => {
                    let text = String::from_utf8_lossy(&o.stdout).to_string();
                    let outcome = text.lines().find(|l| l.starts_with("OUTCOME ")).map(|l| l[8..].to_string()).unwrap_or_else(|| format!("no_outcome(status {:?})", o.status.code()));
                    *outcomes.entry(format!("dev_full.{}", outcome)).or_insert(0) += 1;
                    match outcome.as_str() {
                        "ctor_err" | "push_panic" | "close_err" => {},
                        "close_ok" | "push_panic_then_close_ok" | "close_err_then_close_ok" => ctx.violation(&format!("writer.dev_full.reported_success.{}", kind), format!("{} writer width {} buf {} pushes {} onto /dev/full (no byte can be written): {}", kind, width, buf, count, outcome)),
                        _ => ctx.inconclusive(format!("{} writer onto /dev/full: child gave {}", kind, outcome)),
                    }
                },
            }
        }
        // A limit that bites only during the first half of the pushes (then the disk has room again).
        for t in 0..12usize {
            let limit = 8 + (size * t) / 14;
            points += 1;
            ctx.checks += 1;
            let _ = std::fs::remove_file(&file);
            let out = std::process::Command::new(&exe)
                .args(["c14child", &format!("kind={}", kind), &format!("width={}", width), &format!("buf={}", buf), &format!("count={}", count), &format!("limit={}", limit), &format!("file={}", file), "transient=1"])
                .output();
            match out {
                Err(e) => { ctx.inconclusive(format!("could not spawn the writer child: {}", e)); break; },
                Ok(o) => {
                    let text = String::from_utf8_lossy(&o.stdout).to_string();
                    let outcome = text.lines().find(|l| l.starts_with("OUTCOME ")).map(|l| l[8..].to_string()).unwrap_or_else(|| format!("no_outcome(status {:?})", o.status.code()));
                    *outcomes.entry(format!("transient.{}", outcome)).or_insert(0) += 1;
                    let on_disk = std::fs::read(&file).unwrap_or_default();
                    match outcome.as_str() {
                        "close_ok" => if on_disk != expected { ctx.violation(&format!("writer.transient_limit.reported_success.{}", kind), format!("{} writer width {} buf {} pushes {}: RLIMIT_FSIZE {} during the first half of the pushes, lifted for the second half; no push panicked and close() returned Ok, but the file has {} of {} bytes{}", kind, width, buf, count, limit, on_disk.len(), size, if on_disk.len() == size { " (content differs)" } else { "" })); },
                        "ctor_err" | "push_panic" | "close_err" => {},
                        _ => ctx.inconclusive(format!("{} writer under a transient limit: child gave {}", kind, outcome)),
                    }
                },
            }
        }
        let _ = std::fs::remove_file(&file);
        ctx.case(hash64(&[5, ci as u64, size as u64]), true);
        ctx.sample(|| format!("writers: {} writer width={} buf={} pushes={} complete file {} bytes: one child process per RLIMIT_FSIZE in 0..={} step {}", kind, width, buf, count, size, size + 8, step));
    }
    for (k, v) in outcomes { ctx.count(&format!("writers.outcome.{}", k), v); }
    ctx.count("fault_points.writers", points);
    let _ = (BitVector::from(RawVector::new()).supports_rank(), 0);
}

// The instances used for failing files: the standard list plus one that is larger than any write buffer.
pub fn file_instances(rng: &mut Rng) -> Vec<Inst> {
    let mut v = instances(rng, true);
    let bits: Vec<bool> = (0..300_000).map(|i| (i * 7 + 3) % 11 < 4).collect();
    let mut bv = mk::bv_set_bit(&bits);
    bv.enable_rank(); bv.enable_select(); bv.enable_select_zero();
    v.push(inst("BitVector/300k bits, all supports", bv));
    v.push(inst("Vec<u64>/20k", (0..20_000u64).collect::<Vec<u64>>()));
    v
}

// serialize_to() onto files that cannot take the data: /dev/full, and every interesting RLIMIT_FSIZE in a child process.
fn failing_files(ctx: &mut Ctx) {
    let seed = ctx.seed ^ 0xC14_F;
    let mut rng = Rng::new(seed);
    let list = file_instances(&mut rng);
    let exe = match std::env::current_exe() { Ok(e) => e, Err(e) => { ctx.inconclusive(format!("current_exe: {}", e)); return; } };
    let have_dev_full = std::path::Path::new("/dev/full").exists();
    let mut points = 0u64;
    for (k, it) in list.iter().enumerate() {
        if !ctx.mine(k as u64) { continue; }
        if !ctx.begin_case() { continue; }
        let size = it.bytes.len();
        if have_dev_full {
            points += 1;
            ctx.checks += 1;
            match guard(|| (it.to_file)("/dev/full")) {
                Ok(Err(_)) => {},
                Ok(Ok(())) => ctx.violation(&format!("serialize_to.dev_full.accepted.{}", it.name), format!("serialize_to({}, /dev/full) returned Ok although no byte can be written ({} bytes)", it.name, size)),
                Err(p) => ctx.violation("serialize_to.dev_full!panic", format!("serialize_to({}, /dev/full) panicked: {}", it.name, p)),
            }
        }
        let mut limits: Vec<usize> = vec![0, 8, size / 2, size.saturating_sub(4096), size.saturating_sub(64), size.saturating_sub(8), size.saturating_sub(1), size, size + 8];
        let mut l = 0; while l < std::cmp::min(size, 400) { limits.push(l); l += 8; }
        let mut l = size.saturating_sub(9000); while l < size { limits.push(l); l += 1000; }
        limits.sort_unstable(); limits.dedup();
        let file = format!("{}/vmon-c14f-{}-{}-{}", ctx.tmpdir, std::process::id(), ctx.shard, k);
        for &limit in limits.iter() {
            points += 1;
            ctx.checks += 1;
            let _ = std::fs::remove_file(&file);
            let out = std::process::Command::new(&exe).args(["c14child", "kind=serialize_to", &format!("k={}", k), &format!("seed={}", seed), &format!("limit={}", limit), &format!("file={}", file)]).output();
            match out {
                Err(e) => { ctx.inconclusive(format!("could not spawn the child: {}", e)); break; },
                Ok(o) => {
                    let text = String::from_utf8_lossy(&o.stdout).to_string();
                    let outcome = text.lines().find(|l| l.starts_with("OUTCOME ")).map(|l| l[8..].to_string()).unwrap_or_else(|| format!("no_outcome(status {:?})", o.status.code()));
                    ctx.count(&format!("files.outcome.{}", outcome.split_whitespace().next().unwrap_or("?")), 1);
                    let on_disk = std::fs::read(&file).unwrap_or_default();
                    match outcome.as_str() {
                        "ok" => { if on_disk != it.bytes { ctx.violation(&format!("serialize_to.limit.reported_success.{}", it.name), format!("serialize_to({}, file) under RLIMIT_FSIZE {} returned Ok but the file has {} of {} bytes", it.name, limit, on_disk.len(), size)); } },
                        "err" => { if limit >= size { ctx.violation("serialize_to.limit.spurious_failure", format!("serialize_to({}) failed although the limit {} allows all {} bytes", it.name, limit, size)); } },
                        "panic" => ctx.violation("serialize_to.limit!panic", format!("serialize_to({}) panicked under RLIMIT_FSIZE {}", it.name, limit)),
                        _ => ctx.inconclusive(format!("serialize_to child: {}", outcome)),
                    }
                },
            }
        }
        let _ = std::fs::remove_file(&file);
        ctx.case(hash64(&[6, hash_bytes(it.name.as_bytes()), size as u64]), true);
        ctx.sample(|| format!("files: serialize_to({}, {} bytes) onto /dev/full and under {} RLIMIT_FSIZE values in child processes", it.name, size, limits.len()));
    }
    ctx.count("fault_points.files", points);
}
