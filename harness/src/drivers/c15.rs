// C15: sparse vectors built as multisets answer present-value queries naturally.

use simple_sds::ops::{BitVec, Select};
use simple_sds::sparse_vector::{SparseVector, SparseBuilder};

use std::convert::TryFrom;

use crate::mk;
use crate::models::{Model, SetModel};
use crate::mon::{check_bv, QArgs, QOpts};
use crate::util::{guard, hash64, Ctx, Rng};

pub fn run(ctx: &mut Ctx) {
    let part = ctx.part.clone();
    if part.is_empty() || part == "small" { small(ctx); }
    if part.is_empty() || part == "gen" { generated(ctx); }
    if part.is_empty() || part == "from_iter" { from_iter(ctx); }
    if part.is_empty() || part == "large" { large(ctx); }
}

// Multisets big enough for the select structures over the high part to leave their default regime: overfull tiny
// universes with 10^5+ values (the zeros of `high` form one long select superblock), clustered duplicates far apart
// (long superblocks for the ones), buckets with hundreds of values and duplicates.
fn large(ctx: &mut Ctx) {
    if cfg!(miri) { return; }
    let cases = ctx.size(5, 40);
    for c in 0..cases {
        if !ctx.begin_case() { continue; }
        let mut rng = ctx.rng(0xC15_900 + c as u64);
        let snap = mk::probe_snapshot();
        let (n, pos): (usize, Vec<usize>) = match c % 4 {
            0 => {
                // Overfull tiny universe, uneven multiplicities (some values absent).
                let n = 2 + rng.below(15);
                let mut pos = Vec::new();
                for v in 0..n { let k = match rng.below(4) { 0 => 0, 1 => 1 + rng.below(50), 2 => 20000 + rng.below(30000), _ => 1000 + rng.below(9000) }; for _ in 0..k { pos.push(v); } }
                if pos.len() < 90000 { for _ in 0..100000 { pos.push(n - 1); } }
                (n, pos)
            },
            1 => {
                // Clusters of duplicates separated by huge gaps.
                let n = 1usize << (28 + rng.below(30));
                let mut pos = Vec::new();
                let mut v = rng.below(1 << 20);
                for _ in 0..(3 + rng.below(6)) {
                    let k = match rng.below(3) { 0 => 1 + rng.below(3000), 1 => 4096 + rng.below(200), _ => 30000 + rng.below(170000) };
                    for _ in 0..k { pos.push(v); }
                    v = std::cmp::min(n - 1, v + (n / 16) + rng.below(n / 16));
                }
                pos.push(n - 1);
                (n, pos)
            },
            2 => {
                // Crowded buckets: hundreds of values and duplicate runs inside a narrow range, plus a sparse remainder.
                let n = 1usize << (20 + rng.below(20));
                let mut pos = Vec::new();
                let base = rng.below(n / 2);
                for _ in 0..(2000 + rng.below(4000)) { let v = base + rng.below(600); let k = 1 + if rng.chance(1, 4) { rng.below(150) } else { 0 }; for _ in 0..k { pos.push(v); } }
                for _ in 0..100000 { pos.push(rng.below(n)); }
                (n, pos)
            },
            _ => {
                // Every value of a small universe many times, evenly.
                let n = 1 + rng.below(64);
                let k = 90000 / n + rng.below(2000);
                let mut pos = Vec::new();
                for v in 0..n { for _ in 0..k { pos.push(v); } }
                (n, pos)
            },
        };
        let mut pos = pos;
        pos.sort_unstable();
        let m = SetModel::new(n, pos.clone());
        // Arguments: around every distinct value (capped), ranks at the edges of every duplicate run, at every 4096th rank ±1, random.
        let mut distinct: Vec<usize> = pos.clone(); distinct.dedup();
        let mut around: Vec<usize> = distinct.iter().copied().step_by(std::cmp::max(1, distinct.len() / 400)).collect();
        around.push(0); around.push(n - 1);
        let mut args = QArgs::around(&m, &around, true);
        let mut i = 0;
        let mut runs_seen = 0;
        while i < pos.len() {
            let mut j = i;
            while j + 1 < pos.len() && pos[j + 1] == pos[i] { j += 1; }
            if j > i && runs_seen < 600 { runs_seen += 1; for d in 0..2usize { args.ranks.push(i.saturating_sub(d)); args.ranks.push(i + d); args.ranks.push(j.saturating_sub(d)); args.ranks.push(j + d); } }
            i = j + 1;
        }
        let mut r = 4096;
        while r < pos.len() + 4096 { args.ranks.push(r - 1); args.ranks.push(r); args.ranks.push(r + 1); r += 4096 * (1 + pos.len() / (4096 * 200)); }
        for _ in 0..300 { args.ranks.push(rng.below(pos.len() + 2)); args.idx.push(rng.below(n)); }
        let args = args.dedup();
        let route = c % 5;
        let sv = match route { 0 => mk::multiset_set(n, &pos), 1 => multiset_builder_set(n, &pos), 2 => multiset_extend(n, &pos), 3 => mk::sparse_set_unchecked(n, &pos, true, 0), _ => mk::sparse_set_unchecked(n, &pos, true, 3) };
        check_multiset(ctx, ["multiset.try_set", "multiset.set", "multiset.extend", "multiset.set_unchecked", "multiset.set_unchecked_mixed"][route], sv, &m, &args);
        if pos[pos.len() - 1] + 1 == n {
            let r = guard(|| SparseVector::try_from_iter(pos.iter().copied()).map_err(|e| e.to_string())).and_then(|r| r);
            check_multiset(ctx, "try_from_iter", r, &m, &args);
        }
        mk::probe_delta(ctx, "large", &snap);
        ctx.case(hash64(&[4, n as u64, pos.len() as u64, hash64(&distinct.iter().map(|x| *x as u64).collect::<Vec<u64>>())]), true);
        ctx.sample(|| format!("large: universe={} values={} distinct={} (overfull={})", n, pos.len(), distinct.len(), pos.len() > n));
    }
}

fn opts() -> QOpts { QOpts { zero_side: false, iter_limit: 6000, tail: 4, get: true } }

fn multiset_builder_set(n: usize, pos: &[usize]) -> Result<SparseVector, String> {
    guard(|| {
        let mut b = SparseBuilder::multiset(n, pos.len());
        for &p in pos { b.set(p); }
        SparseVector::try_from(b).map_err(|e| e.to_string())
    }).and_then(|r| r)
}

fn multiset_extend(n: usize, pos: &[usize]) -> Result<SparseVector, String> {
    guard(|| {
        let mut b = SparseBuilder::multiset(n, pos.len());
        b.extend(pos.iter().copied());
        SparseVector::try_from(b).map_err(|e| e.to_string())
    }).and_then(|r| r)
}

fn check_multiset(ctx: &mut Ctx, route: &str, sv: Result<SparseVector, String>, m: &SetModel, args: &QArgs) {
    match sv {
        Ok(sv) => {
            check_bv("multiset", &sv, m, args, &opts(), ctx);
            ctx.expect_eq("multiset.is_multiset", || format!("is_multiset() on {}", m.describe()), &guard(|| sv.is_multiset()), &m.is_multiset());
            // Bit iterator from the back: distinct positions.
            if m.n <= 6000 {
                let want: Vec<bool> = (0..m.n).rev().map(|i| m.get(i)).collect();
                ctx.expect_eq("multiset.iter.rev", || format!("iter().rev() on {}", m.describe()), &guard(|| sv.iter().rev().collect::<Vec<bool>>()), &want);
            }
            if m.ones.len() <= 6000 {
                let want: Vec<(usize, usize)> = m.ones.iter().copied().enumerate().rev().collect();
                ctx.expect_eq("multiset.one_iter.rev", || format!("one_iter().rev() on {}", m.describe()), &guard(|| sv.one_iter().rev().collect::<Vec<(usize, usize)>>()), &want);
            }
        },
        Err(e) => ctx.violation("multiset.construct", format!("construction via {} failed ({}) on {}", route, e, m.describe())),
    }
}

fn enumerate_lists(u: usize, k: usize, out: &mut Vec<Vec<usize>>, cur: &mut Vec<usize>) {
    if cur.len() == k { out.push(cur.clone()); return; }
    let lo = cur.last().copied().unwrap_or(0);
    for v in lo..u {
        cur.push(v);
        enumerate_lists(u, k, out, cur);
        cur.pop();
    }
}

fn small(ctx: &mut Ctx) {
    let max_u = ctx.size(6, 7);
    let max_k = ctx.size(6, 8);
    let mut index = 0u64;
    for u in 0..=max_u {
        for k in 0..=max_k {
            if u == 0 && k > 0 { continue; }
            let mut lists = Vec::new();
            enumerate_lists(u, k, &mut lists, &mut Vec::new());
            for pos in lists {
                index += 1;
                if !ctx.mine(index) { continue; }
                if !ctx.begin_case() { continue; }
                let m = SetModel::new(u, pos.clone());
                let mut args = QArgs::all(u, k, u, 3);
                args.idx.extend(QArgs::extremes());
                args.ranks.extend(QArgs::extremes());
                let args = args.dedup();
                check_multiset(ctx, "multiset.try_set", mk::multiset_set(u, &pos), &m, &args);
                match index % 5 {
                    3 => check_multiset(ctx, "multiset.set_unchecked", mk::sparse_set_unchecked(u, &pos, true, 0), &m, &args),
                    4 => check_multiset(ctx, "multiset.set_unchecked_mixed", mk::sparse_set_unchecked(u, &pos, true, 2), &m, &args),
                    0 => check_multiset(ctx, "multiset.set", multiset_builder_set(u, &pos), &m, &args),
                    1 => check_multiset(ctx, "multiset.extend", multiset_extend(u, &pos), &m, &args),
                    _ => {
                        if !pos.is_empty() && pos[pos.len() - 1] + 1 == u {
                            let r = guard(|| SparseVector::try_from_iter(pos.iter().copied()).map_err(|e| e.to_string())).and_then(|r| r);
                            check_multiset(ctx, "try_from_iter", r, &m, &args);
                        }
                    },
                }
                ctx.case(hash64(&[1, u as u64, hash64(&pos.iter().map(|x| *x as u64).collect::<Vec<u64>>()), k as u64]), k >= 2);
                ctx.sample(|| format!("small: universe={} values={:?} (overfull={})", u, pos, k > u));
            }
        }
    }
}

fn generated(ctx: &mut Ctx) {
    let cases = ctx.size(300, 4000);
    for c in 0..cases {
        if !ctx.begin_case() { continue; }
        let mut rng = ctx.rng(0xC15_000 + c as u64);
        let n: usize = match c % 8 { 0 => 1 + rng.below(40), 1 => 64 + rng.below(2000), 2 => 1usize << (10 + rng.below(30)), 3 => (1usize << 40) - rng.below(3), 4 => 1 + rng.below(8), 5 => usize::MAX - rng.below(3), 6 => (1usize << 63) + rng.below(1 << 40), _ => 1000 + rng.below(100000) };
        let mut pos: Vec<usize> = Vec::new();
        let groups = 1 + rng.below(12);
        for g in 0..groups {
            let v = match (g + c) % 5 { 0 => 0, 1 => n - 1, 2 => rng.below(n), 3 => { let w = 1 + rng.below(12); let edge = (rng.below(n) >> w) << w; std::cmp::min(n - 1, edge.saturating_sub(rng.below(2))) }, _ => rng.below(n) };
            let dup = match rng.below(5) { 0 => 1, 1 => 2, 2 => 2 + rng.below(10), 3 => 20 + rng.below(480), _ => 1 + rng.below(3) };
            for _ in 0..dup { pos.push(v); }
            if rng.chance(1, 3) {
                for _ in 0..rng.below(20) { pos.push(rng.below(n)); }
            }
        }
        pos.sort_unstable();
        let m = SetModel::new(n, pos.clone());
        let mut around: Vec<usize> = pos.iter().copied().step_by(std::cmp::max(1, pos.len() / 150)).collect();
        around.push(0); around.push(n - 1);
        let mut args = if n <= 3000 { let mut a = QArgs::all(n, pos.len(), n, 3); a.idx.extend(QArgs::extremes()); a.ranks.extend(QArgs::extremes()); a } else { QArgs::around(&m, &around, true) };
        // Ranks at the edges of every duplicate run.
        let mut i = 0;
        while i < pos.len() {
            let mut j = i;
            while j + 1 < pos.len() && pos[j + 1] == pos[i] { j += 1; }
            for d in 0..2usize { args.ranks.push(i.saturating_sub(d)); args.ranks.push(i + d); args.ranks.push(j.saturating_sub(d)); args.ranks.push(j + d); }
            i = j + 1;
        }
        let args = args.dedup();
        let route = c % 5;
        let sv = match route { 0 => mk::multiset_set(n, &pos), 1 => multiset_builder_set(n, &pos), 2 => multiset_extend(n, &pos), 3 => mk::sparse_set_unchecked(n, &pos, true, 0), _ => mk::sparse_set_unchecked(n, &pos, true, 3) };
        check_multiset(ctx, ["multiset.try_set", "multiset.set", "multiset.extend", "multiset.set_unchecked", "multiset.set_unchecked_mixed"][route], sv, &m, &args);
        if pos[pos.len() - 1] + 1 == n {
            let r = guard(|| SparseVector::try_from_iter(pos.iter().copied()).map_err(|e| e.to_string())).and_then(|r| r);
            check_multiset(ctx, "try_from_iter", r, &m, &args);
        }
        ctx.case(hash64(&[2, n as u64, hash64(&pos.iter().map(|x| *x as u64).collect::<Vec<u64>>())]), pos.len() >= 2);
        ctx.sample(|| format!("gen: universe={} values={} (overfull={}, multiset={}) first={:?}", n, pos.len(), pos.len() > n, m.is_multiset(), &pos[..std::cmp::min(8, pos.len())]));
    }
}

// try_from_iter accepts exactly the non-decreasing sequences and sizes the universe to last + 1.
fn from_iter(ctx: &mut Ctx) {
    let max_len = ctx.size(5, 6);
    let max_v = 4usize;
    let mut index = 0u64;
    for k in 0..=max_len {
        let total = (max_v as u64).pow(k as u32);
        for code in 0..total {
            index += 1;
            if !ctx.mine(index) { continue; }
            if !ctx.begin_case() { continue; }
            let mut seq: Vec<usize> = Vec::new();
            let mut c = code;
            for _ in 0..k { seq.push((c % max_v as u64) as usize); c /= max_v as u64; }
            let sorted = seq.windows(2).all(|w| w[0] <= w[1]);
            let got = guard(|| SparseVector::try_from_iter(seq.iter().copied()).map_err(|e| e.to_string()));
            ctx.checks += 1;
            match got {
                Err(p) => ctx.violation("multiset.try_from_iter!panic", format!("try_from_iter({:?}) panicked: {}", seq, p)),
                Ok(Ok(sv)) => {
                    if !sorted {
                        ctx.violation("multiset.try_from_iter.accepts_decreasing", format!("try_from_iter({:?}) accepted a sequence that is not non-decreasing", seq));
                    } else {
                        let universe = seq.last().map(|x| x + 1).unwrap_or(0);
                        let m = SetModel::new(universe, seq.clone());
                        let mut args = QArgs::all(universe, k, universe, 3);
                        args.idx.extend(QArgs::extremes());
                        check_multiset(ctx, "try_from_iter", Ok(sv), &m, &args.dedup());
                    }
                },
                Ok(Err(e)) => {
                    if sorted {
                        ctx.violation("multiset.try_from_iter.rejects_sorted", format!("try_from_iter({:?}) rejected a non-decreasing sequence: {}", seq, e));
                    }
                },
            }
            ctx.case(hash64(&[3, k as u64, code]), k >= 2);
            ctx.sample(|| format!("from_iter: sequence={:?} sorted={}", seq, sorted));
        }
    }
    // Sequences whose last value is close to usize::MAX (the universe is last + 1).
    if ctx.mine(2) {
        for k in 0..ctx.size(40, 400) {
            if !ctx.begin_case() { continue; }
            let mut r2: Rng = ctx.rng(0xC15_A00 + k as u64);
            let last = match k % 4 { 0 => usize::MAX - 1, 1 => usize::MAX - 2 - r2.below(1000), 2 => (1usize << 63) + r2.below(1 << 30), _ => usize::MAX - 1 - (r2.magnitude(50) as usize) };
            let mut seq: Vec<usize> = (0..(1 + r2.below(6))).map(|_| r2.range(0, last)).collect();
            seq.push(last); if k % 3 == 0 { seq.push(last); }
            seq.sort_unstable();
            let universe = last + 1;
            let m = SetModel::new(universe, seq.clone());
            let got = guard(|| SparseVector::try_from_iter(seq.iter().copied()).map_err(|e| e.to_string())).and_then(|r| r);
            let args = QArgs::around(&m, &seq, true);
            check_multiset(ctx, "try_from_iter", got, &m, &args);
            ctx.case(hash64(&[5, last as u64, seq.len() as u64]), true);
        }
    }
    // Longer random sequences, sorted and with one inversion.
    let mut rng: Rng = ctx.rng(0xC15_900);
    for _ in 0..ctx.size(300, 5000) {
        if !ctx.begin_case() { continue; }
        let k = 2 + rng.below(60);
        let mut seq: Vec<usize> = (0..k).map(|_| { let b = 1 + rng.below(30); rng.below(1 << b) }).collect();
        seq.sort_unstable();
        let inverted = rng.chance(1, 2);
        if inverted {
            let i = rng.below(k - 1);
            if seq[i] == seq[i + 1] { seq[i + 1] += 1; }
            seq.swap(i, i + 1);
        }
        let sorted = seq.windows(2).all(|w| w[0] <= w[1]);
        let got = guard(|| SparseVector::try_from_iter(seq.iter().copied()).map(|sv| (sv.len(), sv.count_ones())).map_err(|e| e.to_string()));
        ctx.checks += 1;
        match got {
            Err(p) => ctx.violation("multiset.try_from_iter!panic", format!("try_from_iter({:?}) panicked: {}", seq, p)),
            Ok(Ok((len, ones))) => {
                if !sorted { ctx.violation("multiset.try_from_iter.accepts_decreasing", format!("try_from_iter({:?}) accepted a sequence that is not non-decreasing", seq)); }
                else if len != seq[k - 1] + 1 || ones != k { ctx.violation("multiset.try_from_iter.universe", format!("try_from_iter({:?}): (len, ones) = ({}, {})", seq, len, ones)); }
            },
            Ok(Err(e)) => { if sorted { ctx.violation("multiset.try_from_iter.rejects_sorted", format!("try_from_iter({:?}) rejected: {}", seq, e)); } },
        }
        ctx.case(hash64(&[4, hash64(&seq.iter().map(|x| *x as u64).collect::<Vec<u64>>())]), true);
    }
}
