// C06: serialization round trip is the identity and sizes are exact.

use simple_sds::bit_vector::{BitVector, Identity, Complement};
use simple_sds::bit_vector::rank_support::RankSupport;
use simple_sds::bit_vector::select_support::SelectSupport;
use simple_sds::int_vector::IntVector;
use simple_sds::ops::{Vector, Access, VectorIndex, Push, Rank, Select, SelectZero};
use simple_sds::raw_vector::{RawVector, AccessRaw};
use simple_sds::rl_vector::RLVector;
use simple_sds::serialize::{self, Serialize};
use simple_sds::sparse_vector::SparseVector;
use simple_sds::wavelet_matrix::WaveletMatrix;
use simple_sds::wavelet_matrix::wm_core::WMCore;

use std::fmt::Debug;
use std::io::Read;

use crate::gen;
use crate::mk;
use crate::models::{Model, SetModel};
use crate::mon::{query_digest, QArgs};
use crate::util::{guard, hash64, hash_bytes, Ctx, Rng};

pub fn run(ctx: &mut Ctx) {
    let part = ctx.part.clone();
    if part.is_empty() || part == "basic" { basic(ctx); }
    if part.is_empty() || part == "vectors" { vectors(ctx); }
    if part.is_empty() || part == "bitvectors" { bitvectors(ctx); mebibytes(ctx); }
    if part.is_empty() || part == "streams" { streams(ctx); }
    if part.is_empty() || part == "params" { size_by_params(ctx); }
}

// A reader that counts the bytes handed out.
pub struct CountingReader<'a> { pub data: &'a [u8], pub pos: usize }

impl<'a> Read for CountingReader<'a> {
    fn read(&mut self, buf: &mut [u8]) -> std::io::Result<usize> {
        let n = std::cmp::min(buf.len(), self.data.len() - self.pos);
        buf[..n].copy_from_slice(&self.data[self.pos..self.pos + n]);
        self.pos += n;
        Ok(n)
    }
}

// A reader that hands out data in short, irregular pieces (1, 2, 3, 5, 7, 4, 6 bytes ...), as pipes and sockets do.
pub struct ShortReader<'a> { pub data: &'a [u8], pub pos: usize, pub tick: usize }

impl<'a> Read for ShortReader<'a> {
    fn read(&mut self, buf: &mut [u8]) -> std::io::Result<usize> {
        const STEPS: [usize; 7] = [1, 2, 3, 5, 7, 4, 6];
        let k = STEPS[self.tick % STEPS.len()];
        self.tick += 1;
        // Every eleventh call is interrupted before anything was read (EINTR on a pipe or a socket): by the contract of
        // `Read` that is not a failure, the caller retries.
        if self.tick % 11 == 5 { return Err(std::io::Error::new(std::io::ErrorKind::Interrupted, "vmon: interrupted read")); }
        let n = std::cmp::min(std::cmp::min(buf.len(), k), self.data.len() - self.pos);
        buf[..n].copy_from_slice(&self.data[self.pos..self.pos + n]);
        self.pos += n;
        Ok(n)
    }
}

pub const SENTINEL: u64 = 0x5E17_17E1_5E17_17E1;

// Serializes `x`, checks the sizes, loads it back from a stream that continues with a sentinel element, and
// checks consumption, equality and (optionally) a query digest. Returns the serialized bytes.
pub fn roundtrip<T: Serialize + PartialEq + Debug>(ctx: &mut Ctx, name: &str, x: &T, digest: Option<&dyn Fn(&T) -> Result<u64, String>>, what: &dyn Fn() -> String) -> Option<Vec<u8>> {
    ctx.checks += 1;
    let mut bytes: Vec<u8> = Vec::new();
    match guard(|| x.serialize(&mut bytes)) {
        Err(p) => { ctx.violation(&format!("{}.serialize!panic", name), format!("{} on {}", p, what())); return None; },
        Ok(Err(e)) => { ctx.violation(&format!("{}.serialize.err", name), format!("serialize into a Vec failed ({}) on {}", e, what())); return None; },
        Ok(Ok(())) => {},
    }
    let elements = match guard(|| (x.size_in_elements(), x.size_in_bytes())) {
        Ok(e) => e,
        Err(p) => { ctx.violation(&format!("{}.size!panic", name), format!("{} on {}", p, what())); return None; },
    };
    if bytes.len() != 8 * elements.0 || elements.1 != bytes.len() {
        ctx.violation(&format!("{}.size", name), format!("{} bytes written, size_in_elements = {}, size_in_bytes = {} on {}", bytes.len(), elements.0, elements.1, what()));
        return Some(bytes);
    }
    let mut stream = bytes.clone();
    stream.extend_from_slice(&SENTINEL.to_le_bytes());
    let mut reader = CountingReader { data: &stream, pos: 0 };
    let loaded = guard(|| T::load(&mut reader));
    let consumed = reader.pos;
    match loaded {
        Err(p) => { ctx.violation(&format!("{}.load!panic", name), format!("{} on {}", p, what())); },
        Ok(Err(e)) => { ctx.violation(&format!("{}.load.err", name), format!("load failed ({}) on {}", e, what())); },
        Ok(Ok(y)) => {
            if consumed != bytes.len() {
                ctx.violation(&format!("{}.load.consumed", name), format!("load consumed {} of {} bytes on {}", consumed, bytes.len(), what()));
            }
            if y != *x {
                ctx.violation(&format!("{}.load.ne", name), format!("loaded value differs from the original on {}", what()));
            } else if let Some(d) = digest {
                let a = d(x);
                let b = d(&y);
                if a != b || a.is_err() {
                    ctx.violation(&format!("{}.load.answers", name), format!("loaded copy answers queries differently ({:?} vs {:?}) on {}", b, a, what()));
                }
            }
            // The same through a reader that returns short reads: consumption must not depend on how the bytes arrive.
            if stream.len() <= 40_000 {
                let mut short = ShortReader { data: &stream, pos: 0, tick: bytes.len() };
                let again = guard(|| T::load(&mut short));
                let consumed2 = short.pos;
                match again {
                    Ok(Ok(z)) => {
                        if consumed2 != bytes.len() { ctx.violation(&format!("{}.load.consumed.short_reads", name), format!("load through a short-read reader consumed {} of {} bytes on {}", consumed2, bytes.len(), what())); }
                        if z != *x { ctx.violation(&format!("{}.load.ne.short_reads", name), format!("value loaded through a short-read reader differs on {}", what())); }
                    },
                    other => ctx.violation(&format!("{}.load.short_reads", name), format!("load through a short-read reader failed ({:?}) on {}", other.map(|r| r.map(|_| ()).map_err(|e| e.to_string())), what())),
                }
            }
            // Serializing the loaded copy gives the same bytes.
            let mut again: Vec<u8> = Vec::new();
            let _ = y.serialize(&mut again);
            if again != bytes { ctx.violation(&format!("{}.reserialize", name), format!("the loaded copy serializes differently on {}", what())); }
        },
    }
    Some(bytes)
}

fn basic(ctx: &mut Ctx) {
    let mut rng = ctx.rng(0xC6_00);
    let n = ctx.size(40, 400);
    let mut index = 0u64;
    for k in 0..n {
        index += 1;
        if !ctx.mine(index) { continue; }
        if !ctx.begin_case() { continue; }
        let v = match k % 5 { 0 => 0, 1 => u64::MAX, 2 => 1u64 << 63, _ => rng.next_u64() };
        roundtrip(ctx, "u64", &v, None, &|| format!("{}", v));
        roundtrip(ctx, "usize", &(v as usize), None, &|| format!("{}", v));
        let pair = (v, rng.next_u64());
        roundtrip(ctx, "pair", &pair, None, &|| format!("{:?}", pair));
        ctx.case(hash64(&[1, v]), true);
    }
    // Vec<u8> and String of every length 0..=17 (and a few longer), with content that would show padding errors.
    for len in (0..=17usize).chain([23, 24, 25, 63, 64, 65, 255, 256, 4095, 4096].iter().copied()) {
        index += 1;
        if !ctx.mine(index) { continue; }
        if !ctx.begin_case() { continue; }
        let bytes: Vec<u8> = (0..len).map(|i| 0xFF - (i as u8 % 7)).collect();
        if let Some(b) = roundtrip(ctx, "bytes", &bytes, None, &|| format!("Vec<u8> of length {}", len)) {
            ctx.checks += 1;
            if b.len() != 8 + ((len + 7) / 8) * 8 { ctx.violation("bytes.size_formula", format!("Vec<u8> of length {} took {} bytes", len, b.len())); }
        }
        let s: String = (0..len).map(|i| if i % 5 == 4 && i + 1 < len { 'é' } else { (b'a' + (i % 26) as u8) as char }).collect();
        roundtrip(ctx, "string", &s, None, &|| format!("String {:?}", s));
        // Options nested to depth 3 over it.
        let o1: Option<Vec<u8>> = Some(bytes.clone());
        let o2: Option<Option<Vec<u8>>> = Some(o1.clone());
        let o3: Option<Option<Option<Vec<u8>>>> = Some(o2.clone());
        roundtrip(ctx, "option1", &o1, None, &|| format!("Some(Vec<u8> of length {})", len));
        roundtrip(ctx, "option2", &o2, None, &|| format!("Some(Some(Vec<u8> of length {}))", len));
        roundtrip(ctx, "option3", &o3, None, &|| format!("Some(Some(Some(Vec<u8> of length {})))", len));
        let os: Option<String> = Some(s.clone());
        roundtrip(ctx, "option_string", &os, None, &|| format!("Some(String of {} bytes)", s.len()));
        ctx.case(hash64(&[2, len as u64]), true);
        ctx.sample(|| format!("basic: Vec<u8>/String of length {} and Option nested 1..3 levels over it", len));
    }
    if ctx.mine(0) {
        let n1: Option<Vec<u8>> = None;
        let n2: Option<Option<Vec<u64>>> = None;
        let n3: Option<Option<Option<String>>> = None;
        let s0: Option<Option<Vec<u64>>> = Some(None);
        roundtrip(ctx, "option1", &n1, None, &|| "None".to_string());
        roundtrip(ctx, "option2", &n2, None, &|| "None (depth 2)".to_string());
        roundtrip(ctx, "option3", &n3, None, &|| "None (depth 3)".to_string());
        // Some(None) serializes as a present optional of one element that holds an absent optional.
        roundtrip(ctx, "option2", &s0, None, &|| "Some(None)".to_string());
    }
    // Vectors of serializable items.
    for len in [0usize, 1, 2, 3, 7, 8, 9, 100, 1000, 4095, 4096, 4097, 8192, 8193, 10_000, 70_000] {
        index += 1;
        if !ctx.mine(index) { continue; }
        if !ctx.begin_case() { continue; }
        let a: Vec<u64> = (0..len).map(|_| rng.next_u64()).collect();
        let b: Vec<usize> = (0..len).map(|_| rng.next_u64() as usize).collect();
        let c: Vec<(u64, u64)> = (0..len).map(|_| (rng.next_u64(), rng.next_u64())).collect();
        roundtrip(ctx, "vec_u64", &a, None, &|| format!("Vec<u64> of length {}", len));
        roundtrip(ctx, "vec_usize", &b, None, &|| format!("Vec<usize> of length {}", len));
        roundtrip(ctx, "vec_pair", &c, None, &|| format!("Vec<(u64,u64)> of length {}", len));
        roundtrip(ctx, "option_vec", &Some(a.clone()), None, &|| format!("Some(Vec<u64> of length {})", len));
        roundtrip(ctx, "option_vec_pair", &Some(Some(c.clone())), None, &|| format!("Some(Some(Vec<(u64,u64)> of length {}))", len));
        ctx.case(hash64(&[3, len as u64]), true);
    }
}

fn int_digest(v: &IntVector) -> Result<u64, String> {
    guard(|| { let mut acc: Vec<u64> = vec![v.len() as u64, v.width() as u64]; acc.extend(v.iter()); hash64(&acc) })
}

fn raw_digest(v: &RawVector) -> Result<u64, String> {
    guard(|| { let mut acc: Vec<u64> = vec![v.len() as u64, v.count_ones() as u64]; for i in 0..v.len() { acc.push(v.bit(i) as u64); } hash64(&acc) })
}

fn wm_digest(wm: &WaveletMatrix) -> Result<u64, String> {
    guard(|| {
        let mut acc: Vec<u64> = vec![wm.len() as u64, wm.width() as u64];
        let n = wm.len();
        for i in 0..std::cmp::min(n, 400) { let v = wm.get(i); acc.push(v); acc.push(wm.rank(i, v) as u64); acc.push(wm.select(i / 3, v).map(|x| x as u64).unwrap_or(u64::MAX)); }
        for v in 0..20u64 { acc.push(wm.rank(n, v) as u64); acc.push(wm.contains(v) as u64); acc.push(wm.successor(n / 2, v).next().map(|x| x.1 as u64).unwrap_or(u64::MAX)); }
        hash64(&acc)
    })
}

fn core_digest(c: &WMCore) -> Result<u64, String> {
    guard(|| {
        let mut acc: Vec<u64> = vec![c.len() as u64, c.width() as u64];
        for i in 0..std::cmp::min(c.len() + 1, 300) {
            match c.map_down(i) { Some((p, v)) => { acc.push(p as u64); acc.push(v); acc.push(c.map_up_with(p, v).map(|x| x as u64).unwrap_or(u64::MAX)); }, None => acc.push(u64::MAX) }
            acc.push(c.map_down_with(i, 1) as u64);
        }
        hash64(&acc)
    })
}

fn vectors(ctx: &mut Ctx) {
    let mut index = 0u64;
    let reps = ctx.size(3, 20);
    for width in 1..=64usize {
        for rep in 0..reps {
            index += 1;
            if !ctx.mine(index) { continue; }
            if !ctx.begin_case() { continue; }
            let mut rng = ctx.rng(0xC6_1000 + index);
            let len = match rep % 6 { 0 => 0, 1 => 1, 2 => 64 / width + 1, 3 => rng.below(70), 4 => 63 + rng.below(3), _ => rng.below(3000) };
            let mut iv = IntVector::new(width).unwrap();
            for _ in 0..len { iv.push(rng.next_u64()); }
            roundtrip(ctx, "int_vector", &iv, Some(&int_digest), &|| format!("IntVector width {} len {}", width, len));
            ctx.checks += 1;
            if guard(|| IntVector::size_by_params(len, width)) != Ok(iv.size_in_elements()) {
                ctx.violation("int_vector.size_by_params", format!("size_by_params({}, {}) = {:?}, actual {}", len, width, guard(|| IntVector::size_by_params(len, width)), iv.size_in_elements()));
            }
            // Raw vector with `len * width + rep` bits.
            let bits = len * width + rep;
            let mut raw = RawVector::with_len(bits, false);
            for i in 0..bits { if rng.chance(1, 2) { raw.set_bit(i, true); } }
            roundtrip(ctx, "raw_vector", &raw, Some(&raw_digest), &|| format!("RawVector len {}", bits));
            ctx.checks += 1;
            if guard(|| RawVector::size_by_params(bits)) != Ok(raw.size_in_elements()) {
                ctx.violation("raw_vector.size_by_params", format!("size_by_params({}) differs from size_in_elements() = {}", bits, raw.size_in_elements()));
            }
            roundtrip(ctx, "option_int_vector", &Some(iv.clone()), None, &|| format!("Some(IntVector width {} len {})", width, len));
            ctx.case(hash64(&[4, width as u64, len as u64, rep as u64]), true);
            ctx.sample(|| format!("vectors: IntVector width={} len={}; RawVector len={}", width, len, bits));
        }
    }
    // Wavelet matrices and cores.
    let wm_cases = ctx.size(40, 400);
    for k in 0..wm_cases {
        index += 1;
        if !ctx.mine(index) { continue; }
        if !ctx.begin_case() { continue; }
        let mut rng = ctx.rng(0xC6_2000 + index);
        let len = match k % 5 { 0 => 0, 1 => 1, 2 => 64, _ => rng.below(600) };
        let width = 1 + rng.below(12);
        let v: Vec<u64> = (0..len).map(|_| rng.next_u64() & ((1u64 << width) - 1)).collect();
        let wm = WaveletMatrix::from(v.clone());
        roundtrip(ctx, "wavelet_matrix", &wm, Some(&wm_digest), &|| format!("WaveletMatrix len {} width {}", len, width));
        let core = WMCore::from(v.clone());
        roundtrip(ctx, "wm_core", &core, Some(&core_digest), &|| format!("WMCore len {} width {}", len, width));
        ctx.case(hash64(&[5, len as u64, hash64(&v)]), true);
        ctx.sample(|| format!("vectors: WaveletMatrix/WMCore len={} width<={}", len, width));
    }
}

fn bv_with_supports(bits: &[bool], subset: usize) -> BitVector {
    let mut bv = mk::bv_set_bit(bits);
    if subset & 1 != 0 { bv.enable_rank(); }
    if subset & 2 != 0 { bv.enable_select(); }
    if subset & 4 != 0 { bv.enable_select_zero(); }
    bv
}

// Structures whose serialized parts are (exact multiples of) a mebibyte and more: implementations that read or write in
// blocks have their boundaries there. One vector of 40 Mbit with rank support (its samples alone exceed 1 MiB).
// A plain bitvector of `words` random words (density 1/8) with rank support, 3000 positions (a third of them above 2^24)
// and the ranks there computed from the words themselves.
pub fn forty_mbit(rng: &mut Rng, words: usize) -> (BitVector, Vec<usize>, Vec<usize>, u32) {
    let mut raw = simple_sds::raw_vector::RawVector::with_capacity(words * 64);
    let mut prefix: Vec<u32> = Vec::with_capacity(words + 1); // ones before each word (the oracle for rank)
    let mut ones = 0u32;
    for _ in 0..words {
        let w = rng.next_u64() & rng.next_u64() & rng.next_u64();
        prefix.push(ones);
        ones += w.count_ones();
        unsafe { simple_sds::raw_vector::PushRaw::push_int(&mut raw, w, 64); }
    }
    prefix.push(ones);
    let words_copy: Vec<u64> = { let r: &[u64] = raw.as_ref(); r.to_vec() };
    let mut bv = BitVector::from(raw);
    bv.enable_rank();
    let positions: Vec<usize> = (0..3000).map(|i| if i % 3 == 0 { (1usize << 24) + rng.below(1 << 24) } else { rng.below(words * 64 + 1) }).collect();
    let want: Vec<usize> = positions.iter().map(|&p| { let (w, o) = (p / 64, p % 64); prefix[w] as usize + if o > 0 { (words_copy[w] & ((1u64 << o) - 1)).count_ones() as usize } else { 0 } }).collect();
    (bv, positions, want, ones)
}

fn mebibytes(ctx: &mut Ctx) {
    if cfg!(miri) || !ctx.mine(0) { return; }
    // Around 1 and 2 MiB, and beyond 8 and 16 MiB (a loader that reads large bodies block by block has several blocks then).
    for (k, items) in [131_072usize, 131_071, 131_073, 262_144, 400_000, 1_048_583, 2_200_000].iter().enumerate() {
        if !ctx.begin_case() { continue; }
        let v: Vec<u64> = (0..*items as u64).map(|i| i.wrapping_mul(0x9E37_79B9_7F4A_7C15) ^ (i >> 3)).collect();
        roundtrip(ctx, "vec_u64_mib", &v, None, &|| format!("Vec<u64> of {} items ({} bytes)", items, items * 8));
        let p: Vec<(u64, u64)> = (0..(*items as u64) / 2).map(|i| (i.wrapping_mul(0xD134_2543_DE82_EF95), !i)).collect();
        roundtrip(ctx, "vec_pair_mib", &p, None, &|| format!("Vec<(u64,u64)> of {} items ({} bytes)", items / 2, items * 8));
        let b: Vec<u8> = (0..*items * 8).map(|i| (i * 7 + i / 251) as u8).collect();
        roundtrip(ctx, "vec_u8_mib", &b, None, &|| format!("Vec<u8> of {} bytes", items * 8));
        ctx.case(hash64(&[20, k as u64, *items as u64]), true);
    }
    if ctx.begin_case() {
        let mut rng = ctx.rng(0xC6_9000);
        let words = 625_000usize; // 40 Mbit
        let (bv, positions, want, ones) = forty_mbit(&mut rng, words);
        let positions2 = positions.clone();
        let digest = move |b: &BitVector| -> Result<u64, String> { guard(|| hash64(&positions2.iter().map(|&p| b.rank(p) as u64).collect::<Vec<u64>>())) };
        ctx.expect_eq("bit_vector_40mbit.rank", || "rank at 3000 positions of a 40 Mbit bitvector (before serialization)".to_string(), &guard(|| positions.iter().map(|&p| bv.rank(p)).collect::<Vec<usize>>()), &want);
        roundtrip(ctx, "bit_vector_40mbit", &bv, Some(&digest), &|| format!("BitVector of {} bits with rank support ({} ones)", words * 64, ones));
        ctx.case(hash64(&[21, ones as u64]), true);
        ctx.sample(|| format!("mebibytes: Vec<u64>/Vec<(u64,u64)>/Vec<u8> around 1 MiB and 2 MiB; BitVector of 40 Mbit with rank support, rank compared at 3000 positions before and after the round trip"));
    }
}

fn bitvectors(ctx: &mut Ctx) {
    let cases = ctx.size(60, 600);
    let mut index = 0u64;
    for k in 0..cases {
        index += 1;
        if !ctx.mine(index) { continue; }
        if !ctx.begin_case() { continue; }
        let mut rng = ctx.rng(0xC6_3000 + index);
        let n = match k % 7 { 0 => 0, 1 => 1, 2 => gen::BOUNDARY_LENGTHS[rng.below(21)], 3 => rng.below(200), 4 => 4096 + rng.below(3), 5 => if k % 21 == 5 && !cfg!(miri) { 2_200_000 + rng.below(1000) } else { 150_000 + rng.below(1000) }, _ => rng.below(20000) };
        let d = *rng.pick(&gen::DENSITIES);
        let s = *rng.pick(&gen::SHAPES);
        let bits = gen::bits(&mut rng, n, d, s);
        let m = SetModel::from_bits(&bits);
        let mut around: Vec<usize> = m.ones.iter().copied().step_by(std::cmp::max(1, m.ones.len() / 40)).collect();
        for _ in 0..20 { around.push(rng.below(n + 1)); }
        let args = QArgs::around(&m, &around, false);
        let what = || format!("len {} density {:?} shape {:?}", n, d, s);
        // Plain bitvector with each of the 8 support subsets (queries only through the enabled supports).
        for subset in 0..8usize {
            let bv = bv_with_supports(&bits, subset);
            let args = args.clone();
            let digest = move |b: &BitVector| -> Result<u64, String> {
                guard(|| {
                    let mut acc: Vec<u64> = vec![b.supports_rank() as u64, b.supports_select() as u64, b.supports_select_zero() as u64];
                    for &i in args.idx.iter() { if subset & 1 != 0 { acc.push(b.rank(i) as u64); } }
                    for &r in args.ranks.iter() {
                        if subset & 2 != 0 { acc.push(b.select(r).map(|x| x as u64).unwrap_or(u64::MAX)); }
                        if subset & 4 != 0 { acc.push(b.select_zero(r).map(|x| x as u64).unwrap_or(u64::MAX)); }
                    }
                    hash64(&acc)
                })
            };
            roundtrip(ctx, "bit_vector", &bv, Some(&digest), &|| format!("BitVector {} supports {:03b}", what(), subset));
            if subset == 7 && n < 30000 {
                roundtrip(ctx, "option_bit_vector", &Some(bv.clone()), None, &|| format!("Some(BitVector {})", what()));
            }
        }
        // Support structures on their own.
        let plain = mk::bv_set_bit(&bits);
        roundtrip(ctx, "rank_support", &RankSupport::new(&plain), None, &|| format!("RankSupport {}", what()));
        roundtrip(ctx, "select_support", &SelectSupport::<Identity>::new(&plain), None, &|| format!("SelectSupport<Identity> {}", what()));
        roundtrip(ctx, "select_support_zero", &SelectSupport::<Complement>::new(&plain), None, &|| format!("SelectSupport<Complement> {}", what()));
        // Sparse (set and multiset) and run-length vectors.
        if let Ok(sv) = mk::sparse_set(n, &m.ones) {
            roundtrip(ctx, "sparse_vector", &sv, Some(&|x: &SparseVector| query_digest(x, &args, true)), &|| format!("SparseVector {}", what()));
        }
        if n > 0 && n < 30000 {
            let mut dup: Vec<usize> = Vec::new();
            for &p in m.ones.iter() { dup.push(p); if rng.chance(1, 3) { dup.push(p); } }
            if let Ok(ms) = mk::multiset_set(n, &dup) {
                roundtrip(ctx, "sparse_multiset", &ms, Some(&|x: &SparseVector| query_digest(x, &QArgs { idx: args.idx.clone(), ranks: args.ranks.clone() }, false)), &|| format!("multiset SparseVector {}", what()));
            }
        }
        if let Ok(rv) = mk::rl_runs(n, &m.runs()) {
            roundtrip(ctx, "rl_vector", &rv, Some(&|x: &RLVector| query_digest(x, &args, true)), &|| format!("RLVector {}", what()));
            roundtrip(ctx, "option_rl_vector", &Some(rv.clone()), None, &|| format!("Some(RLVector {})", what()));
        }
        ctx.case(hash64(&[6, n as u64, hash64(&m.ones.iter().map(|x| *x as u64).collect::<Vec<u64>>())]), true);
        ctx.sample(|| format!("bitvectors: {} -> BitVector x 8 support subsets, RankSupport, SelectSupport x2, SparseVector (set + multiset), RLVector", what()));
    }
    // Sparse vectors over huge universes (every low width class), as in C02.
    for k in 0..ctx.size(70, 700) {
        index += 1;
        if !ctx.mine(index) { continue; }
        if !ctx.begin_case() { continue; }
        let mut rng = ctx.rng(0xC6_3800 + index);
        let w = 1 + (k * 7) % 63;
        let max_m = if w >= 63 { 1 } else { std::cmp::max(1, std::cmp::min(300usize, (0.69 * (2.0f64).powi(64 - w as i32)) as usize)) };
        let mt = 1 + rng.below(max_m);
        let n = match k % 5 { 0 => usize::MAX - rng.below(3), 1 => (1usize << 63) + rng.below(1 << 20), _ => match crate::drivers::c02::universe_for(&mut rng, w, mt) { Some(n) => n, None => continue } };
        let mt = if k % 5 < 2 { 1 + rng.below(8) } else { mt };
        let pos = gen::sparse_positions(&mut rng, n, mt, w, gen::LAYOUTS[k % 6]);
        let m = SetModel::new(n, pos);
        if let Ok(sv) = mk::sparse_set(n, &m.ones) {
            let args = QArgs::around(&m, &m.ones.iter().copied().take(30).collect::<Vec<usize>>(), true);
            roundtrip(ctx, "sparse_vector", &sv, Some(&|x: &SparseVector| query_digest(x, &args, true)), &|| format!("SparseVector n={} m={}", n, m.ones.len()));
        }
        ctx.case(hash64(&[12, n as u64, m.ones.len() as u64]), true);
    }
    // RL vectors with 0, 1, 9+ blocks and huge runs.
    for k in 0..ctx.size(20, 200) {
        index += 1;
        if !ctx.mine(index) { continue; }
        if !ctx.begin_case() { continue; }
        let mut rng = ctx.rng(0xC6_4000 + index);
        let nruns = match k % 5 { 0 => 0, 1 => 1, 2 => 300 + rng.below(100), 3 => 20, _ => rng.below(3000) };
        let mut runs: Vec<(usize, usize)> = Vec::new();
        let mut pos = 0usize;
        for _ in 0..nruns {
            let gap = 1 + (rng.magnitude(if k % 2 == 0 { 6 } else { 40 }) as usize);
            let l = 1 + (rng.magnitude(if k % 3 == 0 { 6 } else { 30 }) as usize);
            runs.push((pos + gap, l));
            pos += gap + l;
        }
        let n = pos + rng.below(100);
        if let Ok(rv) = mk::rl_runs(n, &runs) {
            let m = crate::models::RunModel::new(n, &runs);
            let around: Vec<usize> = runs.iter().step_by(std::cmp::max(1, runs.len() / 50)).map(|r| r.0).collect();
            let args = QArgs::around(&m, &around, true);
            roundtrip(ctx, "rl_vector", &rv, Some(&|x: &RLVector| query_digest(x, &args, true)), &|| format!("RLVector with {} runs, len {}", nruns, n));
        }
        ctx.case(hash64(&[7, nruns as u64, n as u64]), true);
    }
}

//-----------------------------------------------------------------------------

#[derive(Clone, Debug, PartialEq)]
enum Thing { U(u64), Pair((u64, u64)), VU(Vec<u64>), VP(Vec<(u64, u64)>), Bytes(Vec<u8>), Str(String), Opt(Option<Vec<u64>>), OptStr(Option<String>), Raw(RawVector), Int(IntVector), Bv(BitVector), Sp(SparseVector), Rl(RLVector), Wm(WaveletMatrix), Core(WMCore) }

impl Thing {
    fn random(rng: &mut Rng) -> Thing {
        let len = match rng.below(4) { 0 => 0, 1 => 1, _ => rng.below(200) };
        let bits = |rng: &mut Rng| -> Vec<bool> { (0..len).map(|_| rng.chance(1, 3)).collect() };
        match rng.below(15) {
            0 => Thing::U(rng.next_u64()),
            1 => Thing::Pair((rng.next_u64(), rng.next_u64())),
            2 => Thing::VU((0..len).map(|_| rng.next_u64()).collect()),
            3 => Thing::VP((0..len).map(|_| (rng.next_u64(), rng.next_u64())).collect()),
            4 => Thing::Bytes((0..len).map(|_| rng.next_u64() as u8 | 1).collect()),
            5 => Thing::Str((0..len).map(|i| (b'a' + (i % 26) as u8) as char).collect()),
            6 => Thing::Opt(if rng.chance(1, 3) { None } else { Some((0..len).map(|_| rng.next_u64()).collect()) }),
            7 => Thing::OptStr(if rng.chance(1, 3) { None } else { Some((0..len).map(|i| (b'A' + (i % 26) as u8) as char).collect()) }),
            8 => Thing::Raw(mk::raw_set_bit(&bits(rng))),
            9 => { let w = 1 + rng.below(64); let mut iv = IntVector::new(w).unwrap(); for _ in 0..len { iv.push(rng.next_u64()); } Thing::Int(iv) },
            10 => { let b = bits(rng); let subset = rng.below(8); Thing::Bv(bv_with_supports(&b, subset)) },
            11 => { let b = bits(rng); let m = SetModel::from_bits(&b); Thing::Sp(mk::sparse_set(m.n, &m.ones).unwrap()) },
            12 => { let b = bits(rng); let m = SetModel::from_bits(&b); Thing::Rl(mk::rl_runs(m.n, &m.runs()).unwrap()) },
            13 => Thing::Wm(WaveletMatrix::from((0..len).map(|_| rng.next_u64() & 0x3F).collect::<Vec<u64>>())),
            _ => Thing::Core(WMCore::from((0..len).map(|_| rng.next_u64() & 0x1F).collect::<Vec<u64>>())),
        }
    }

    fn write(&self, out: &mut Vec<u8>) -> std::io::Result<()> {
        match self {
            Thing::U(x) => x.serialize(out), Thing::Pair(x) => x.serialize(out), Thing::VU(x) => x.serialize(out), Thing::VP(x) => x.serialize(out), Thing::Bytes(x) => x.serialize(out),
            Thing::Str(x) => x.serialize(out), Thing::Opt(x) => x.serialize(out), Thing::OptStr(x) => x.serialize(out), Thing::Raw(x) => x.serialize(out), Thing::Int(x) => x.serialize(out),
            Thing::Bv(x) => x.serialize(out), Thing::Sp(x) => x.serialize(out), Thing::Rl(x) => x.serialize(out), Thing::Wm(x) => x.serialize(out), Thing::Core(x) => x.serialize(out),
        }
    }

    fn size(&self) -> usize {
        match self {
            Thing::U(x) => x.size_in_bytes(), Thing::Pair(x) => x.size_in_bytes(), Thing::VU(x) => x.size_in_bytes(), Thing::VP(x) => x.size_in_bytes(), Thing::Bytes(x) => x.size_in_bytes(),
            Thing::Str(x) => x.size_in_bytes(), Thing::Opt(x) => x.size_in_bytes(), Thing::OptStr(x) => x.size_in_bytes(), Thing::Raw(x) => x.size_in_bytes(), Thing::Int(x) => x.size_in_bytes(),
            Thing::Bv(x) => x.size_in_bytes(), Thing::Sp(x) => x.size_in_bytes(), Thing::Rl(x) => x.size_in_bytes(), Thing::Wm(x) => x.size_in_bytes(), Thing::Core(x) => x.size_in_bytes(),
        }
    }

    fn read_like<R: Read>(&self, r: &mut R) -> std::io::Result<Thing> {
        Ok(match self {
            Thing::U(_) => Thing::U(u64::load(r)?), Thing::Pair(_) => Thing::Pair(<(u64, u64)>::load(r)?), Thing::VU(_) => Thing::VU(Vec::<u64>::load(r)?), Thing::VP(_) => Thing::VP(Vec::<(u64, u64)>::load(r)?),
            Thing::Bytes(_) => Thing::Bytes(Vec::<u8>::load(r)?), Thing::Str(_) => Thing::Str(String::load(r)?), Thing::Opt(_) => Thing::Opt(Option::<Vec<u64>>::load(r)?), Thing::OptStr(_) => Thing::OptStr(Option::<String>::load(r)?),
            Thing::Raw(_) => Thing::Raw(RawVector::load(r)?), Thing::Int(_) => Thing::Int(IntVector::load(r)?), Thing::Bv(_) => Thing::Bv(BitVector::load(r)?), Thing::Sp(_) => Thing::Sp(SparseVector::load(r)?),
            Thing::Rl(_) => Thing::Rl(RLVector::load(r)?), Thing::Wm(_) => Thing::Wm(WaveletMatrix::load(r)?), Thing::Core(_) => Thing::Core(WMCore::load(r)?),
        })
    }

    fn kind(&self) -> &'static str {
        match self { Thing::U(_) => "u64", Thing::Pair(_) => "(u64,u64)", Thing::VU(_) => "Vec<u64>", Thing::VP(_) => "Vec<(u64,u64)>", Thing::Bytes(_) => "Vec<u8>", Thing::Str(_) => "String", Thing::Opt(_) => "Option<Vec<u64>>",
            Thing::OptStr(_) => "Option<String>", Thing::Raw(_) => "RawVector", Thing::Int(_) => "IntVector", Thing::Bv(_) => "BitVector", Thing::Sp(_) => "SparseVector", Thing::Rl(_) => "RLVector", Thing::Wm(_) => "WaveletMatrix", Thing::Core(_) => "WMCore" }
    }
}

fn streams(ctx: &mut Ctx) {
    let cases = ctx.size(300, 5000);
    for k in 0..cases {
        if !ctx.begin_case() { continue; }
        let mut rng = ctx.rng(0xC6_5000 + k as u64);
        let count = 2 + rng.below(7);
        let things: Vec<Thing> = (0..count).map(|_| Thing::random(&mut rng)).collect();
        let kinds: Vec<&str> = things.iter().map(|t| t.kind()).collect();
        let mut bytes: Vec<u8> = Vec::new();
        let mut offsets: Vec<usize> = Vec::new();
        let mut ok = true;
        for t in things.iter() {
            offsets.push(bytes.len());
            let before = bytes.len();
            if guard(|| t.write(&mut bytes)).map(|r| r.is_ok()) != Ok(true) { ctx.violation("stream.serialize", format!("serialize failed in stream {:?}", kinds)); ok = false; break; }
            ctx.checks += 1;
            if bytes.len() - before != t.size() { ctx.violation("stream.size", format!("{} wrote {} bytes, size_in_bytes {} in stream {:?}", t.kind(), bytes.len() - before, t.size(), kinds)); ok = false; break; }
        }
        if !ok { continue; }
        offsets.push(bytes.len());
        // Through a file when not interpreted (serialize_to/load_from cover single values; here one file, many values).
        let mut reader = CountingReader { data: &bytes, pos: 0 };
        for (i, t) in things.iter().enumerate() {
            ctx.checks += 1;
            match guard(|| t.read_like(&mut reader)) {
                Err(p) => { ctx.violation("stream.load!panic", format!("{} (#{}) in stream {:?}: {}", t.kind(), i, kinds, p)); break; },
                Ok(Err(e)) => { ctx.violation("stream.load.err", format!("{} (#{}) in stream {:?}: {}", t.kind(), i, kinds, e)); break; },
                Ok(Ok(y)) => {
                    if y != *t { ctx.violation("stream.load.ne", format!("{} (#{}) in stream {:?} loaded unequal", t.kind(), i, kinds)); break; }
                },
            }
            if reader.pos != offsets[i + 1] { ctx.violation("stream.load.consumed", format!("after {} (#{}) the reader is at byte {}, the next structure starts at {} in stream {:?}", t.kind(), i, reader.pos, offsets[i + 1], kinds)); break; }
        }
        ctx.case(hash64(&[8, hash_bytes(&bytes)]), true);
        ctx.sample(|| format!("stream: {:?} written back to back ({} bytes) and loaded in sequence", kinds, bytes.len()));
    }
    // serialize_to / load_from through real files.
    if !cfg!(miri) && ctx.mine(0) {
        let mut rng = ctx.rng(0xC6_6000);
        for k in 0..ctx.size(20, 200) {
            if !ctx.begin_case() { continue; }
            let len = rng.below(500);
            let mut iv = IntVector::new(1 + rng.below(64)).unwrap();
            for _ in 0..len { iv.push(rng.next_u64()); }
            let name = format!("{}/vmon-c06-{}-{}-{}", ctx.tmpdir, std::process::id(), ctx.shard, k);
            let r = guard(|| -> Result<(bool, u64), String> {
                // Every other case overwrites a longer file written earlier: exactly the new structure must remain.
                if k % 2 == 0 {
                    let longer = IntVector::with_len(len + 1 + k * 37, 64, 0x5A5A).unwrap();
                    serialize::serialize_to(&longer, &name).map_err(|e| e.to_string())?;
                }
                serialize::serialize_to(&iv, &name).map_err(|e| e.to_string())?;
                let size = std::fs::metadata(&name).map_err(|e| e.to_string())?.len();
                let back: IntVector = serialize::load_from(&name).map_err(|e| e.to_string())?;
                Ok((back == iv, size))
            });
            let _ = std::fs::remove_file(&name);
            ctx.expect_eq("file.roundtrip", || format!("serialize_to/load_from IntVector len {}", len), &r, &Ok((true, iv.size_in_bytes() as u64)));
            ctx.case(hash64(&[9, k as u64, len as u64]), true);
        }
        // Families of files in one directory whose names differ only in their extensions (as an index made of several
        // files would be stored), among them names that look like somebody's temporary files: written one after the other
        // and then by concurrent threads; every one of them must load back as what was written to it.
        for k in 0..ctx.size(6, 40) {
            if !ctx.begin_case() { continue; }
            let dir = format!("{}/vmon-c06-family-{}-{}-{}", ctx.tmpdir, std::process::id(), ctx.shard, k);
            if std::fs::create_dir_all(&dir).is_err() { ctx.inconclusive(format!("could not create {}", dir)); continue; }
            let stem = ["index", "graph.v2", "a", ".hidden"][k % 4];
            let exts = ["", ".values", ".bits", ".tmp", ".sds", ".sds.tmp", ".bak", ".part", "~", ".tmp.tmp", ".0", ".1"];
            let values: Vec<IntVector> = (0..exts.len()).map(|j| { let w = 1 + rng.below(64); let n = if k % 2 == 0 { 20_000 + rng.below(60_000) } else { rng.below(300) }; let mut v = IntVector::with_capacity(n, w).unwrap(); for i in 0..n { v.push((i as u64).wrapping_mul(0x9E37_79B9_7F4A_7C15) ^ (j as u64)); } v }).collect();
            let names: Vec<String> = exts.iter().map(|e| format!("{}/{}{}", dir, stem, e)).collect();
            for concurrent in [false, true] {
                let written: Vec<Result<(), String>> = if concurrent {
                    let barrier = std::sync::Arc::new(std::sync::Barrier::new(names.len()));
                    std::thread::scope(|sc| {
                        let hs: Vec<_> = names.iter().zip(values.iter()).map(|(nm, v)| { let b = barrier.clone(); sc.spawn(move || { b.wait(); guard(|| serialize::serialize_to(v, nm).map_err(|e| e.to_string())).and_then(|r| r) }) }).collect();
                        hs.into_iter().map(|h| h.join().unwrap_or_else(|_| Err("thread panicked".to_string()))).collect()
                    })
                } else {
                    names.iter().zip(values.iter()).map(|(nm, v)| guard(|| serialize::serialize_to(v, nm).map_err(|e| e.to_string())).and_then(|r| r)).collect()
                };
                for (j, nm) in names.iter().enumerate() {
                    let got = match &written[j] {
                        Err(e) => Err(format!("serialize_to failed: {}", e)),
                        Ok(()) => guard(|| -> Result<(bool, u64), String> { let size = std::fs::metadata(nm).map_err(|e| e.to_string())?.len(); let back: IntVector = serialize::load_from(nm).map_err(|e| e.to_string())?; Ok((back == values[j], size)) }).and_then(|r| r),
                    };
                    ctx.expect_eq(if concurrent { "file.family.concurrent" } else { "file.family.sequential" }, || format!("{} of {} files {}{{{}}} written {}: round trip of {:?} (IntVector width {} len {})", j, names.len(), stem, exts.join(","), if concurrent { "by concurrent threads" } else { "one after the other" }, nm, values[j].width(), values[j].len()), &Ok::<Result<(bool, u64), String>, String>(got), &Ok((true, values[j].size_in_bytes() as u64)));
                }
                for nm in names.iter() { let _ = std::fs::remove_file(nm); }
            }
            let left: Vec<String> = std::fs::read_dir(&dir).map(|rd| rd.filter_map(|e| e.ok()).map(|e| e.file_name().to_string_lossy().to_string()).collect()).unwrap_or_default();
            ctx.count("file.family.leftover_files", left.len() as u64);
            let _ = std::fs::remove_dir_all(&dir);
            ctx.case(hash64(&[10, k as u64, values[0].len() as u64]), true);
            ctx.sample(|| format!("file family: {} files named {}{{{}}} in one directory, written sequentially and then concurrently, all loaded back", names.len(), stem, exts.join(",")));
        }
    }
}

fn size_by_params(ctx: &mut Ctx) {
    if !ctx.mine(0) { return; }
    for n in 0..=ctx.size(300, 3000) {
        if !ctx.begin_case() { continue; }
        let raw = RawVector::with_len(n, true);
        ctx.expect_eq("raw_vector.size_by_params", || format!("RawVector::size_by_params({})", n), &guard(|| RawVector::size_by_params(n)), &raw.size_in_elements());
        ctx.case(hash64(&[10, n as u64]), true);
    }
    for n in 0..=70usize {
        for w in 1..=64usize {
            if !ctx.begin_case() { continue; }
            let iv = IntVector::with_len(n, w, !0u64).unwrap();
            let mut bytes: Vec<u8> = Vec::new();
            iv.serialize(&mut bytes).unwrap();
            ctx.expect_eq("int_vector.size_by_params", || format!("IntVector::size_by_params({}, {}) vs bytes written / 8", n, w), &guard(|| IntVector::size_by_params(n, w)), &(bytes.len() / 8));
            ctx.case(hash64(&[11, n as u64, w as u64]), true);
        }
    }
    ctx.sample(|| "params: RawVector::size_by_params(n) for every n <= 300 and IntVector::size_by_params(n, w) for n <= 70 x w in 1..=64 against the bytes actually written".to_string());
}
