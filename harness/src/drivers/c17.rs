// C17: bit-level primitives are exact at every offset, width and word pattern.

use simple_sds::bits;

use crate::util::{guard, hash64, Ctx};

pub fn run(ctx: &mut Ctx) {
    let part = ctx.part.clone();
    if part.is_empty() || part == "masks" { masks(ctx); helpers(ctx); }
    if part.is_empty() || part == "rw" { read_write(ctx); }
    if part.is_empty() || part == "select" { select(ctx); }
    if part == "select_miri" { select_miri(ctx); }
}

fn naive_bit_len(n: u64) -> usize {
    let mut n = n;
    let mut len = 0;
    while n > 0 { len += 1; n >>= 1; }
    std::cmp::max(len, 1)
}

fn naive_reverse_low(n: u64, bits: usize) -> u64 {
    let mut out = 0u64;
    for i in 0..bits {
        if (n >> i) & 1 == 1 { out |= 1u64 << (bits - 1 - i); }
    }
    out
}

fn naive_select(word: u64, rank: usize) -> usize {
    let mut seen = 0;
    for i in 0..64 {
        if (word >> i) & 1 == 1 {
            if seen == rank { return i; }
            seen += 1;
        }
    }
    usize::MAX
}

fn masks(ctx: &mut Ctx) {
    if !ctx.mine(0) { return; }
    for n in 0..=64usize {
        if !ctx.begin_case() { continue; }
        let low: u64 = if n == 64 { !0 } else { (1u64 << n) - 1 };
        let high: u64 = if n == 0 { 0 } else { !0u64 << (64 - n) };
        ctx.expect_eq("bits.low_set", || format!("low_set({})", n), &guard(|| bits::low_set(n)), &low);
        ctx.expect_eq("bits.high_set", || format!("high_set({})", n), &guard(|| bits::high_set(n)), &high);
        ctx.expect_eq("bits.low_set_unchecked", || format!("low_set_unchecked({})", n), &guard(|| unsafe { bits::low_set_unchecked(n) }), &low);
        ctx.expect_eq("bits.high_set_unchecked", || format!("high_set_unchecked({})", n), &guard(|| unsafe { bits::high_set_unchecked(n) }), &high);
        ctx.case(hash64(&[1, n as u64]), true);
    }
    ctx.sample(|| "masks: low_set/high_set/_unchecked for every n in 0..=64".to_string());
    let mut rng = ctx.rng(0x17);
    let per = ctx.size(1000, 20000);
    for b in 1..=64usize {
        if !ctx.begin_case() { continue; }
        for k in 0..per {
            let v = match k { 0 => 0, 1 => !0u64, 2 => 1, 3 => 1u64 << 63, _ => rng.next_u64() };
            ctx.expect_eq("bits.reverse_low", || format!("reverse_low({:#x}, {})", v, b), &guard(|| bits::reverse_low(v, b)), &naive_reverse_low(v, b));
        }
        ctx.case(hash64(&[2, b as u64]), true);
    }
    for p in 0..64u32 {
        if !ctx.begin_case() { continue; }
        for d in [-1i64, 0, 1] {
            let v = (1u64 << p).wrapping_add(d as u64);
            ctx.expect_eq("bits.bit_len", || format!("bit_len({:#x})", v), &guard(|| bits::bit_len(v)), &naive_bit_len(v));
        }
        ctx.case(hash64(&[3, p as u64]), true);
    }
    for _ in 0..per {
        let v = rng.magnitude(64);
        ctx.expect_eq("bits.bit_len", || format!("bit_len({:#x})", v), &guard(|| bits::bit_len(v)), &naive_bit_len(v));
    }
    ctx.expect_eq("bits.bit_len", || "bit_len(u64::MAX)".to_string(), &guard(|| bits::bit_len(u64::MAX)), &64);
}

fn helpers(ctx: &mut Ctx) {
    if !ctx.mine(1) { return; }
    let mut rng = ctx.rng(0x18);
    // The edges of the documented domains first (a leg that stops on its operation budget still reaches them).
    let mut values: Vec<usize> = vec![usize::MAX, usize::MAX - 1, usize::MAX - 6, usize::MAX - 7, usize::MAX - 8, usize::MAX - 62, usize::MAX - 63, usize::MAX - 64, usize::MAX - 127, usize::MAX / 8, usize::MAX / 8 + 1, usize::MAX / 64, usize::MAX / 64 + 1, 0, 1, 7, 8, 9, 63, 64, 65];
    for p in 0..64u32 {
        for d in [-1i64, 0, 1] { values.push((1u64 << p).wrapping_add(d as u64) as usize); }
    }
    for _ in 0..ctx.size(2000, 50000) { values.push(rng.magnitude(64) as usize); }
    for &n in &values {
        if !ctx.begin_case() { continue; }
        let n128 = n as u128;
        // Documented domains: n * 8 <= MAX; n + 7 <= MAX; n * 64 <= MAX; n + 63 <= MAX.
        if n128 * 8 <= usize::MAX as u128 {
            ctx.expect_eq("bits.words_to_bytes", || format!("words_to_bytes({})", n), &guard(|| bits::words_to_bytes(n)), &((n128 * 8) as usize));
        }
        if n128 + 7 <= usize::MAX as u128 {
            ctx.expect_eq("bits.bytes_to_words", || format!("bytes_to_words({})", n), &guard(|| bits::bytes_to_words(n)), &(((n128 + 7) / 8) as usize));
            ctx.expect_eq("bits.round_up_to_word_bytes", || format!("round_up_to_word_bytes({})", n), &guard(|| bits::round_up_to_word_bytes(n)), &((((n128 + 7) / 8) * 8) as usize));
        }
        if n128 * 64 <= usize::MAX as u128 {
            ctx.expect_eq("bits.words_to_bits", || format!("words_to_bits({})", n), &guard(|| bits::words_to_bits(n)), &((n128 * 64) as usize));
        }
        if n128 + 63 <= usize::MAX as u128 {
            ctx.expect_eq("bits.bits_to_words", || format!("bits_to_words({})", n), &guard(|| bits::bits_to_words(n)), &(((n128 + 63) / 64) as usize));
            ctx.expect_eq("bits.round_up_to_word_bits", || format!("round_up_to_word_bits({})", n), &guard(|| bits::round_up_to_word_bits(n)), &((((n128 + 63) / 64) * 64) as usize));
        }
        ctx.expect_eq("bits.split_offset", || format!("split_offset({})", n), &guard(|| bits::split_offset(n)), &(n / 64, n % 64));
        let (i, o) = (n / 64, n % 64);
        ctx.expect_eq("bits.bit_offset", || format!("bit_offset({}, {})", i, o), &guard(|| bits::bit_offset(i, o)), &n);
        for &d in &[1usize, 2, 3, 7, 8, 13, 64, 4096, (1 << 31) + 1] {
            if n128 + d as u128 <= usize::MAX as u128 {
                ctx.expect_eq("bits.div_round_up", || format!("div_round_up({}, {})", n, d), &guard(|| bits::div_round_up(n, d)), &(((n128 + d as u128 - 1) / d as u128) as usize));
            }
        }
        ctx.case(hash64(&[4, n as u64]), true);
    }
    ctx.expect_eq("bits.filler_value", || "filler_value(true)".to_string(), &guard(|| bits::filler_value(true)), &!0u64);
    ctx.expect_eq("bits.filler_value", || "filler_value(false)".to_string(), &guard(|| bits::filler_value(false)), &0u64);
    ctx.sample(|| "helpers: words/bytes/bits conversions, rounding, div_round_up, split/bit_offset on 2^k-1, 2^k, 2^k+1, random magnitudes and the edges of each documented domain".to_string());
}

fn to_bits(a: &[u64]) -> Vec<bool> {
    let mut v = Vec::with_capacity(a.len() * 64);
    for w in a { for i in 0..64 { v.push((w >> i) & 1 == 1); } }
    v
}

fn read_write(ctx: &mut Ctx) {
    let mut rng = ctx.rng(0x19);
    let nvalues = ctx.size(40, 300);
    let mut index = 0u64;
    let mut exhaustive = true;
    for offset in 0..192usize {
        for width in 1..=64usize {
            index += 1;
            if !ctx.mine(index) { continue; }
            if !ctx.begin_case() { exhaustive = false; continue; }
            for k in 0..nvalues {
                let value: u64 = match k {
                    0 => 0,
                    1 => !0u64,
                    2 => 1,
                    3 => 1u64 << (width - 1),
                    4 => 0xAAAA_AAAA_AAAA_AAAA,
                    5 => 0x5555_5555_5555_5555,
                    _ => rng.next_u64(),
                };
                for bg in 0..3 {
                    let mut array: Vec<u64> = match bg {
                        0 => vec![0u64; 4],
                        1 => vec![!0u64; 4],
                        _ => (0..4).map(|_| rng.next_u64()).collect(),
                    };
                    let before = to_bits(&array);
                    let mut want = before.clone();
                    for i in 0..width { want[offset + i] = (value >> i) & 1 == 1; }
                    let r = guard(|| unsafe { bits::write_int(&mut array, offset, value, width); });
                    if let Err(p) = r {
                        ctx.violation("bits.write_int!panic", format!("write_int(offset {}, value {:#x}, width {}) panicked: {}", offset, value, width, p));
                        continue;
                    }
                    ctx.checks += 1;
                    let after = to_bits(&array);
                    if after != want {
                        let diff: Vec<usize> = (0..256).filter(|i| after[*i] != want[*i]).collect();
                        ctx.violation("bits.write_int", format!("write_int(offset {}, value {:#x}, width {}, background {}): bits {:?} differ from the bit-array model", offset, value, width, bg, diff));
                    }
                    let truncated = if width == 64 { value } else { value & ((1u64 << width) - 1) };
                    ctx.expect_eq("bits.read_int", || format!("read_int(offset {}, width {}) after write of {:#x}", offset, width, value), &guard(|| unsafe { bits::read_int(&array, offset, width) }), &truncated);
                    // Reading any other field must agree with the model, too.
                    let o2 = rng.below(192);
                    let w2 = 1 + rng.below(64);
                    let mut exp = 0u64;
                    for i in 0..w2 { if want[o2 + i] { exp |= 1u64 << i; } }
                    ctx.expect_eq("bits.read_int", || format!("read_int(offset {}, width {})", o2, w2), &guard(|| unsafe { bits::read_int(&array, o2, w2) }), &exp);
                }
            }
            // Backgrounds in which every word is, independently, empty / full / random / a single bit (so that a field's
            // first word can be busy while its second word is empty, and the other way round), and short histories of
            // writes to the same and to neighbouring fields of one array, compared with the model after every write.
            for k in 0..(if ctx.quick() { 10 } else { 40 }) {
                let mut array: Vec<u64> = (0..4).map(|w| match (k + w * 7 + rng.below(4)) % 4 { 0 => 0u64, 1 => !0u64, 2 => rng.next_u64(), _ => 1u64 << rng.below(64) }).collect();
                let mut model = to_bits(&array);
                let writes = 1 + rng.below(4);
                let mut log: Vec<(usize, u64, usize)> = Vec::new();
                for j in 0..writes {
                    // The same field again, the field right behind it, or the field right before it.
                    let (o, w) = match if j == 0 { 0 } else { rng.below(4) } { 0 | 1 => (offset, width), 2 if offset + 2 * width <= 256 => (offset + width, width), 3 if offset >= width => (offset - width, width), _ => (offset, width) };
                    let value: u64 = match rng.below(6) { 0 => 0, 1 => !0u64, 2 => rng.next_u64() & 0xFF, 3 => 1u64 << rng.below(w), 4 => rng.next_u64() & rng.next_u64(), _ => rng.next_u64() };
                    log.push((o, value, w));
                    for i in 0..w { model[o + i] = (value >> i) & 1 == 1; }
                    if let Err(p) = guard(|| unsafe { bits::write_int(&mut array, o, value, w); }) {
                        ctx.violation("bits.write_int!panic", format!("write_int history {:?} panicked: {}", log, p));
                        break;
                    }
                    ctx.checks += 1;
                    let after = to_bits(&array);
                    if after != model {
                        let diff: Vec<usize> = (0..256).filter(|i| after[*i] != model[*i]).collect();
                        ctx.violation("bits.write_int.history", format!("after the writes (offset, value, width) {:x?} on a 4-word array with mixed words: bits {:?} differ from the bit-array model", log, diff));
                        break;
                    }
                    let truncated = if w == 64 { value } else { value & ((1u64 << w) - 1) };
                    ctx.expect_eq("bits.read_int.history", || format!("read_int(offset {}, width {}) after the writes {:x?}", o, w, log), &guard(|| unsafe { bits::read_int(&array, o, w) }), &truncated);
                }
            }
            ctx.case(hash64(&[5, offset as u64, width as u64]), true);
            ctx.sample(|| format!("rw: offset={} width={} x {} values x 3 backgrounds on a 4-word array, all 256 bits compared; plus mixed-word backgrounds with histories of 1-4 writes to the same and neighbouring fields", offset, width, nvalues));
        }
    }
    ctx.note("cov.rw_exhaustive_offsets_widths", format!("{}", exhaustive));
}

fn check_select(ctx: &mut Ctx, word: u64) {
    let ones = word.count_ones() as usize;
    for rank in 0..ones {
        ctx.expect_eq("bits.select", || format!("select({:#018x}, {})", word, rank), &guard(|| unsafe { bits::select(word, rank) }), &naive_select(word, rank));
    }
}

fn select(ctx: &mut Ctx) {
    ctx.note("cov.select_path", (if cfg!(target_feature = "bmi2") { "pdep" } else { "table" }).to_string());
    let mut index = 0u64;
    // Single-bit and two-bit words.
    for i in 0..64u32 {
        index += 1;
        if !ctx.mine(index) { continue; }
        if !ctx.begin_case() { continue; }
        check_select(ctx, 1u64 << i);
        for j in 0..64u32 { check_select(ctx, (1u64 << i) | (1u64 << j)); }
        ctx.case(hash64(&[6, i as u64]), true);
    }
    // Every byte value in every byte position (alone, and with all other bytes full / random).
    let mut rng = ctx.rng(0x1A);
    for pos in 0..8u32 {
        for b in 0..256u64 {
            index += 1;
            if !ctx.mine(index) { continue; }
            if !ctx.begin_case() { continue; }
            let w = b << (8 * pos);
            check_select(ctx, w);
            let mask = !(0xFFu64 << (8 * pos));
            check_select(ctx, w | mask);
            check_select(ctx, w | (rng.next_u64() & mask));
            ctx.case(hash64(&[7, pos as u64, b]), true);
        }
    }
    // Every 16-bit pattern in each quarter.
    for q in 0..4u32 {
        for block in 0..64u64 {
            index += 1;
            if !ctx.mine(index) { continue; }
            if !ctx.begin_case() { continue; }
            let step = ctx.scale as u64;
            let mut lo = (block * 7 + q as u64) % step;
            while lo < 1024 {
                let p = block * 1024 + lo;
                check_select(ctx, p << (16 * q));
                lo += step;
            }
            ctx.case(hash64(&[8, q as u64, block]), true);
        }
    }
    // Random sparse / dense / uniform words, every rank.
    let n = ctx.size(600_000, 8_000_000);
    for k in 0..n as u64 {
        if !ctx.begin_case() { continue; }
        let w = match k % 4 {
            0 => rng.next_u64(),
            1 => rng.next_u64() & rng.next_u64() & rng.next_u64(),
            2 => rng.next_u64() | rng.next_u64() | rng.next_u64(),
            _ => { let s = rng.below(64); (rng.next_u64() >> s) << rng.below(s + 1) },
        };
        check_select(ctx, w);
        ctx.case(hash64(&[9, w]), w != 0);
        ctx.sample(|| format!("select: word={:#018x} x every rank 0..{}", w, w.count_ones()));
    }
    check_select(ctx, !0u64);
}

// Small slice for the UB interpreter: every byte value (all its ranks => every reachable entry of the 2 KiB table on the
// portable path), in a rotating byte position, alone / surrounded by ones / surrounded by random bits.
fn select_miri(ctx: &mut Ctx) {
    ctx.note("cov.select_path", (if cfg!(target_feature = "bmi2") { "pdep" } else { "table" }).to_string());
    let mut rng = ctx.rng(0x1B);
    for b in 0..256u64 {
        if !ctx.mine(b) { continue; }
        if !ctx.begin_case() { continue; }
        let pos = (b % 8) as u32;
        let w = b << (8 * pos);
        let mask = !(0xFFu64 << (8 * pos));
        check_select(ctx, w);
        check_select(ctx, w | (rng.next_u64() & mask));
        if b % 16 == 0 { check_select(ctx, w | mask); }
        ctx.case(hash64(&[10, pos as u64, b]), true);
        ctx.sample(|| format!("select (interpreter): byte value {:#04x} in byte {} x every rank", b, pos));
    }
    for i in 0..8u32 {
        if !ctx.begin_case() { continue; }
        let w = 1u64 << (rng.below(64) as u32) | 1u64 << (8 * i);
        check_select(ctx, w);
        ctx.case(hash64(&[11, w]), true);
    }
}
