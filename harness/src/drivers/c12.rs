// C12: buffered file writers produce exactly the in-memory serialization.

use simple_sds::int_vector::{IntVector, IntVectorWriter};
use simple_sds::ops::{Vector, Push};
use simple_sds::raw_vector::{RawVector, RawVectorWriter, PushRaw};
use simple_sds::serialize::Serialize;

use crate::util::{guard, hash64, Ctx, Rng};

pub fn run(ctx: &mut Ctx) {
    let part = ctx.part.clone();
    if part.is_empty() || part == "int_exh" { int_exhaustive(ctx); }
    if part.is_empty() || part == "int" { int_random(ctx); }
    if part.is_empty() || part == "raw" { raw_random(ctx); }
    if part.is_empty() || part == "big" { big(ctx); families(ctx); }
}

// Large streams: the default 1 MiB buffer (and 2 MiB, 64 KiB, 4 KiB ones) flushed several times in mid-stream, with long
// stretches of zeros in the middle and at the end (a writer may treat an all-zero block specially).
// Several writers open at the same time on names that differ only in their extensions (the columns of one table):
// each file must be what its own writer was given.
fn families(ctx: &mut Ctx) {
    if cfg!(miri) || !ctx.mine(1) { return; }
    for k in 0..ctx.size(8, 60) {
        if !ctx.begin_case() { continue; }
        let mut rng: Rng = ctx.rng(0xC12_F00 + k as u64);
        let dir = format!("{}/vmon-c12-family-{}-{}-{}", ctx.tmpdir, std::process::id(), ctx.shard, k);
        if std::fs::create_dir_all(&dir).is_err() { ctx.inconclusive(format!("could not create {}", dir)); continue; }
        let exts = ["keys", "values", "tmp", "bak", "sds.tmp", "0"];
        let widths: Vec<usize> = exts.iter().map(|_| 1 + rng.below(64)).collect();
        let counts: Vec<usize> = exts.iter().map(|_| rng.below(3000)).collect();
        let values: Vec<Vec<u64>> = counts.iter().map(|c| (0..*c).map(|_| rng.next_u64()).collect()).collect();
        let names: Vec<String> = exts.iter().map(|e| format!("{}/columns.{}", dir, e)).collect();
        let r = guard(|| -> Result<Vec<Vec<u8>>, String> {
            let mut writers: Vec<IntVectorWriter> = Vec::new();
            for (j, nm) in names.iter().enumerate() { writers.push(IntVectorWriter::with_buf_len(nm, widths[j], 64 + j * 100).map_err(|e| format!("constructor {}: {}", nm, e))?); }
            // Interleaved pushes, then closed in another order; every other family leaves the last writer to Drop.
            let longest = counts.iter().copied().max().unwrap_or(0);
            for i in 0..longest { for (j, w) in writers.iter_mut().enumerate() { if i < counts[j] { w.push(values[j][i]); } } }
            let n = writers.len();
            for (j, w) in writers.iter_mut().enumerate().rev() { if !(k % 2 == 0 && j == n - 1) { w.close().map_err(|e| format!("close {}: {}", names[j], e))?; } }
            drop(writers);
            names.iter().map(|nm| std::fs::read(nm).map_err(|e| format!("reading {}: {}", nm, e))).collect()
        });
        ctx.checks += 1;
        match r {
            Err(p) => ctx.violation("int_writer.family!panic", format!("{} writers open at once on columns.{{{}}}: {}", exts.len(), exts.join(","), p)),
            Ok(Err(e)) => ctx.violation("int_writer.family.err", format!("{} writers open at once on columns.{{{}}}: {}", exts.len(), exts.join(","), e)),
            Ok(Ok(files)) => {
                for (j, f) in files.iter().enumerate() {
                    let mut expected = IntVector::new(widths[j]).unwrap();
                    for v in values[j].iter() { expected.push(*v); }
                    ctx.checks += 1;
                    if *f != ser(&expected) { ctx.violation("int_writer.family.file", format!("file {} written by one of {} writers open at the same time (width {}, {} items) differs from the in-memory serialization ({} vs {} bytes)", names[j], exts.len(), widths[j], counts[j], f.len(), ser(&expected).len())); }
                }
            },
        }
        let _ = std::fs::remove_dir_all(&dir);
        ctx.case(hash64(&[7, k as u64, counts[0] as u64]), true);
        ctx.sample(|| format!("family: {} writers open at once on columns.{{{}}}, interleaved pushes, closed in reverse order", exts.len(), exts.join(",")));
    }
}

fn big(ctx: &mut Ctx) {
    if cfg!(miri) { return; }
    // (width, buffer in items, number of items, pattern)
    let mut cases: Vec<(usize, Option<usize>, usize, usize)> = vec![
        (13, None, 700_000, 0), (64, None, 300_000, 2), (16, None, 50_000, 1), (16, Some(4096 * 8 / 16), 50_000, 1), (1, None, 9_000_000, 3),
        (13, Some(2 * 1024 * 1024 * 8 / 13), 1_400_000, 0), (32, Some(65536 * 8 / 32), 100_000, 2), (64, Some(512), 40_000, 1), (7, Some(1 << 20), 2_500_000, 2),
        (64, None, 131_072 * 2, 0), (8, None, 1 << 21, 3), (16, Some(1 << 19), 1 << 20, 1),
    ];
    if !ctx.quick() { cases.extend_from_slice(&[(13, None, 2_000_000, 2), (63, None, 400_000, 3), (33, Some(1 << 18), 900_000, 0), (5, None, 4_000_000, 1)]); }
    for (k, &(width, buf, items, pattern)) in cases.iter().enumerate() {
        if !ctx.mine(k as u64) { continue; }
        if !ctx.begin_case() { continue; }
        let mut rng: Rng = ctx.rng(0xC12_B00 + k as u64);
        let third = items / 3;
        let pushes: Vec<IPush> = (0..items).map(|i| {
            let zero = match pattern { 0 => false, 1 => true, 2 => i >= items - third, _ => i < third || (i >= 2 * third && i < 2 * third + third / 2) };
            IPush::One(if zero { 0 } else { rng.next_u64() | 1 })
        }).collect();
        let mode = MODES[k % 4];
        int_case(ctx, width, buf, &pushes, mode, (1u64 << 40) + k as u64);
        ctx.case(hash64(&[4, width as u64, buf.unwrap_or(usize::MAX) as u64, items as u64, pattern as u64]), true);
        ctx.sample(|| format!("big: width={} buf_len={:?} items={} zero pattern {} mode={:?}", width, buf, items, pattern, mode));
    }
}

fn ser<T: Serialize>(x: &T) -> Vec<u8> {
    let mut out: Vec<u8> = Vec::new();
    x.serialize(&mut out).unwrap();
    out
}

#[derive(Clone, Copy, Debug, PartialEq, Eq)]
enum CloseMode { Close, CloseClose, Drop, CloseDrop }

const MODES: [CloseMode; 4] = [CloseMode::Close, CloseMode::CloseClose, CloseMode::Drop, CloseMode::CloseDrop];

fn tmp_name(ctx: &Ctx, tag: &str, k: u64) -> String {
    format!("{}/vmon-c12-{}-{}-{}-{}", ctx.tmpdir, std::process::id(), ctx.shard, tag, k)
}

#[derive(Clone, Debug)]
enum IPush { One(u64), ExtU8(Vec<u8>), ExtU16(Vec<u16>), ExtU32(Vec<u32>), ExtU64(Vec<u64>), ExtUsize(Vec<usize>) }

// Runs one integer-writer configuration and compares the file with the in-memory vector.
fn int_case(ctx: &mut Ctx, width: usize, buf_len: Option<usize>, pushes: &[IPush], mode: CloseMode, k: u64) {
    let name = tmp_name(ctx, "int", k);
    let what = || format!("IntVectorWriter width {} buf_len {:?} pushes {} mode {:?}", width, buf_len, pushes.len(), mode);
    let mut expected = IntVector::new(width).unwrap();
    for p in pushes {
        match p {
            IPush::One(v) => expected.push(*v),
            IPush::ExtU8(v) => expected.extend(v.iter().copied()),
            IPush::ExtU16(v) => expected.extend(v.iter().copied()),
            IPush::ExtU32(v) => expected.extend(v.iter().copied()),
            IPush::ExtU64(v) => expected.extend(v.iter().copied()),
            IPush::ExtUsize(v) => expected.extend(v.iter().copied()),
        }
    }
    let want = ser(&expected);
    // Every third case writes over an existing, longer file: the writer must leave exactly its own data.
    if k % 3 == 0 { std::fs::write(&name, vec![0xABu8; want.len() + 24 + (k as usize % 4096)]).unwrap(); }
    let result = guard(|| -> Result<(usize, Vec<Vec<u8>>, Vec<bool>), String> {
        let mut w = match buf_len {
            Some(b) => IntVectorWriter::with_buf_len(&name, width, b),
            None => IntVectorWriter::new(&name, width),
        }.map_err(|e| format!("constructor: {}", e))?;
        for p in pushes {
            match p {
                IPush::One(v) => w.push(*v),
                IPush::ExtU8(v) => if k % 2 == 0 { w.extend(v.iter().copied()) } else { w.extend(v.iter().copied().filter(|_| true)) }, // the second form has no exact size hint
                IPush::ExtU16(v) => if k % 2 == 0 { w.extend(v.iter().copied()) } else { w.extend(v.iter().copied().filter(|_| true)) }, // the second form has no exact size hint
                IPush::ExtU32(v) => if k % 2 == 0 { w.extend(v.iter().copied()) } else { w.extend(v.iter().copied().filter(|_| true)) }, // the second form has no exact size hint
                IPush::ExtU64(v) => if k % 2 == 0 { w.extend(v.iter().copied()) } else { w.extend(v.iter().copied().filter(|_| true)) }, // the second form has no exact size hint
                IPush::ExtUsize(v) => if k % 2 == 0 { w.extend(v.iter().copied()) } else { w.extend(v.iter().copied().filter(|_| true)) }, // the second form has no exact size hint
            }
        }
        let len = w.len();
        // The other accessors of an open writer agree with len() and with the constructor arguments.
        // (width, filename and max_len are read for coverage; only is_empty is judged: it is defined by len().)
        let _ = (w.width(), w.filename().to_path_buf(), w.max_len());
        if w.is_empty() != (len == 0) { return Err(format!("accessors: is_empty() = {} with len() = {}", w.is_empty(), len)); }
        let mut files: Vec<Vec<u8>> = Vec::new();
        let mut open: Vec<bool> = vec![w.is_open()];
        match mode {
            CloseMode::Close => { w.close().map_err(|e| format!("close: {}", e))?; open.push(w.is_open()); files.push(std::fs::read(&name).map_err(|e| e.to_string())?); drop(w); },
            CloseMode::CloseClose => {
                w.close().map_err(|e| format!("close: {}", e))?;
                files.push(std::fs::read(&name).map_err(|e| e.to_string())?);
                w.close().map_err(|e| format!("second close: {}", e))?;
                open.push(w.is_open());
                files.push(std::fs::read(&name).map_err(|e| e.to_string())?);
                drop(w);
            },
            // Every other time the open writer is dropped by stack unwinding (a panic in the owning scope that is caught
            // further up): the file must be as complete as after any other drop.
            CloseMode::Drop => { if k % 2 == 1 { let r = guard(move || { let _owned = w; if std::hint::black_box(true) { panic!("vmon: deliberate panic in a scope that owns an open writer"); } }); if r.is_ok() { return Err("the deliberate panic did not happen".to_string()); } } else { drop(w); } },
            CloseMode::CloseDrop => { w.close().map_err(|e| format!("close: {}", e))?; open.push(w.is_open()); files.push(std::fs::read(&name).map_err(|e| e.to_string())?); drop(w); },
        }
        files.push(std::fs::read(&name).map_err(|e| e.to_string())?);
        Ok((len, files, open))
    });
    let _ = std::fs::remove_file(&name);
    ctx.checks += 1;
    match result {
        Err(p) => ctx.violation("int_writer!panic", format!("{}: {}", what(), p)),
        Ok(Err(e)) => ctx.violation("int_writer.err", format!("{}: {}", what(), e)),
        Ok(Ok((len, files, open))) => {
            if len != expected.len() { ctx.violation("int_writer.len", format!("{}: len() = {}, pushed {}", what(), len, expected.len())); }
            if !open[0] || open[1..].iter().any(|o| *o) { ctx.violation("int_writer.is_open", format!("{}: is_open sequence {:?}", what(), open)); }
            for (i, f) in files.iter().enumerate() {
                if *f != want {
                    let first = (0..std::cmp::min(f.len(), want.len())).find(|j| f[*j] != want[*j]);
                    ctx.violation(&format!("int_writer.file.{:?}", mode), format!("{}: file (observation {}) has {} bytes, in-memory serialization {} bytes, first difference at byte {:?}", what(), i, f.len(), want.len(), first));
                    break;
                }
            }
        },
    }
}

fn int_exhaustive(ctx: &mut Ctx) {
    // Width <= 8, buffer <= 3 words, <= 40 pushes of one width; every (width, buffer, count), modes rotate.
    let max_pushes = ctx.size(40, 70);
    let mut index = 0u64;
    for width in 1..=8usize {
        for buf_items in 0..=(192 / width) {
            for count in 0..=max_pushes {
                index += 1;
                if !ctx.mine(index) { continue; }
                if !ctx.begin_case() { continue; }
                let pushes: Vec<IPush> = (0..count).map(|i| IPush::One(if i % 3 == 0 { !0u64 } else { (i as u64).wrapping_mul(0x9E37_79B9) })).collect();
                let mode = MODES[(index % 4) as usize];
                int_case(ctx, width, Some(buf_items), &pushes, mode, index);
                ctx.case(hash64(&[1, width as u64, buf_items as u64, count as u64]), true);
                ctx.sample(|| format!("int exhaustive: width={} buf_len={} items pushes={} mode={:?}", width, buf_items, count, mode));
            }
        }
    }
}

fn int_random(ctx: &mut Ctx) {
    let reps = ctx.size(6, 60);
    let mut index = 0u64;
    for width in 1..=64usize {
        let buffers: Vec<Option<usize>> = vec![Some(0), Some(1), Some(width.saturating_sub(1)), Some(width), Some(width + 1), Some(63), Some(64), Some(65), Some(127), Some(128), Some(129), Some(1000), None];
        for (bi, &buf) in buffers.iter().enumerate() {
            for rep in 0..reps {
                index += 1;
                if !ctx.mine(index) { continue; }
                if bi == buffers.len() - 1 && rep > 0 { continue; } // default (8 MiB) buffer: once per width
                if !ctx.begin_case() { continue; }
                let mut rng: Rng = ctx.rng(0xC12_000 + index);
                // Aim at the flush boundary: buffer of b items => flush when b*width (rounded up to words) bits are reached.
                let buf_bits = std::cmp::max(64, ((buf.unwrap_or(1 << 20) * width + 63) / 64) * 64);
                let per_flush = std::cmp::max(1, buf_bits / width);
                let total = match rep % 6 { 0 => 0, 1 => per_flush, 2 => per_flush + 1, 3 => per_flush.saturating_sub(1), 4 => 2 * per_flush + rng.below(3), _ => rng.below(400) };
                let total = std::cmp::min(total, 3000);
                let mut pushes: Vec<IPush> = Vec::new();
                let mut left = total;
                while left > 0 {
                    let k = std::cmp::min(left, 1 + rng.below(9));
                    match rng.below(8) {
                        0 => pushes.push(IPush::ExtU8((0..k).map(|_| rng.next_u64() as u8).collect())),
                        1 => pushes.push(IPush::ExtU16((0..k).map(|_| rng.next_u64() as u16).collect())),
                        2 => pushes.push(IPush::ExtU32((0..k).map(|_| rng.next_u64() as u32).collect())),
                        3 => pushes.push(IPush::ExtU64((0..k).map(|_| rng.next_u64()).collect())),
                        4 => pushes.push(IPush::ExtUsize((0..k).map(|_| rng.next_u64() as usize).collect())),
                        _ => { for _ in 0..k { pushes.push(IPush::One(if rng.chance(1, 3) { !0u64 } else { rng.next_u64() })); } },
                    }
                    left -= k;
                }
                let mode = MODES[rng.below(4)];
                int_case(ctx, width, buf, &pushes, mode, index);
                ctx.case(hash64(&[2, width as u64, buf.unwrap_or(usize::MAX) as u64, total as u64, mode as u64]), true);
                ctx.sample(|| format!("int: width={} buf_len={:?} items={} mode={:?}", width, buf, total, mode));
            }
        }
    }
}

#[derive(Clone, Debug)]
enum RPush { Bit(bool), Int(u64, usize) }

fn raw_case(ctx: &mut Ctx, buf_len: Option<usize>, pushes: &[RPush], mode: CloseMode, k: u64) {
    let name = tmp_name(ctx, "raw", k);
    let what = || format!("RawVectorWriter buf_len {:?} pushes {} mode {:?} first pushes {:?}", buf_len, pushes.len(), mode, &pushes[..std::cmp::min(6, pushes.len())]);
    let mut expected = RawVector::new();
    for p in pushes {
        match p { RPush::Bit(b) => expected.push_bit(*b), RPush::Int(v, w) => unsafe { expected.push_int(*v, *w) } }
    }
    let want = ser(&expected);
    if k % 3 == 0 { std::fs::write(&name, vec![0xCDu8; want.len() + 8 + (k as usize % 4096)]).unwrap(); }
    let result = guard(|| -> Result<(usize, Vec<Vec<u8>>, Vec<bool>), String> {
        let mut header: Vec<u64> = Vec::new();
        let mut w = match buf_len {
            Some(b) => RawVectorWriter::with_buf_len(&name, &mut header, b),
            None => RawVectorWriter::new(&name, &mut header),
        }.map_err(|e| format!("constructor: {}", e))?;
        for p in pushes {
            match p { RPush::Bit(b) => w.push_bit(*b), RPush::Int(v, wd) => unsafe { w.push_int(*v, *wd) } }
        }
        let len = w.len();
        let _ = w.filename().to_path_buf();
        if w.is_empty() != (len == 0) { return Err(format!("accessors: is_empty() = {} with len() = {}", w.is_empty(), len)); }
        let mut files: Vec<Vec<u8>> = Vec::new();
        let mut open: Vec<bool> = vec![w.is_open()];
        match mode {
            CloseMode::Close | CloseMode::CloseDrop => { w.close().map_err(|e| format!("close: {}", e))?; open.push(w.is_open()); files.push(std::fs::read(&name).map_err(|e| e.to_string())?); drop(w); },
            CloseMode::CloseClose => {
                w.close().map_err(|e| format!("close: {}", e))?;
                files.push(std::fs::read(&name).map_err(|e| e.to_string())?);
                w.close().map_err(|e| format!("second close: {}", e))?;
                open.push(w.is_open());
                files.push(std::fs::read(&name).map_err(|e| e.to_string())?);
                drop(w);
            },
            // Every other time the open writer is dropped by stack unwinding (a panic in the owning scope that is caught
            // further up): the file must be as complete as after any other drop.
            CloseMode::Drop => { if k % 2 == 1 { let r = guard(move || { let _owned = w; if std::hint::black_box(true) { panic!("vmon: deliberate panic in a scope that owns an open writer"); } }); if r.is_ok() { return Err("the deliberate panic did not happen".to_string()); } } else { drop(w); } },
        }
        files.push(std::fs::read(&name).map_err(|e| e.to_string())?);
        Ok((len, files, open))
    });
    let _ = std::fs::remove_file(&name);
    ctx.checks += 1;
    match result {
        Err(p) => ctx.violation("raw_writer!panic", format!("{}: {}", what(), p)),
        Ok(Err(e)) => ctx.violation("raw_writer.err", format!("{}: {}", what(), e)),
        Ok(Ok((len, files, open))) => {
            if len != expected.len() { ctx.violation("raw_writer.len", format!("{}: len() = {}, pushed {} bits", what(), len, expected.len())); }
            if !open[0] || open[1..].iter().any(|o| *o) { ctx.violation("raw_writer.is_open", format!("{}: is_open sequence {:?}", what(), open)); }
            for (i, f) in files.iter().enumerate() {
                if *f != want {
                    let first = (0..std::cmp::min(f.len(), want.len())).find(|j| f[*j] != want[*j]);
                    ctx.violation(&format!("raw_writer.file.{:?}", mode), format!("{}: file (observation {}) has {} bytes, in-memory serialization {} bytes, first difference at byte {:?}", what(), i, f.len(), want.len(), first));
                    break;
                }
            }
        },
    }
}

fn raw_random(ctx: &mut Ctx) {
    let cases = ctx.size(600, 10000);
    let buffers: Vec<Option<usize>> = vec![Some(0), Some(1), Some(63), Some(64), Some(65), Some(127), Some(128), Some(129), Some(192), Some(1000), Some(4096), None];
    for c in 0..cases {
        if !ctx.begin_case() { continue; }
        let mut rng: Rng = ctx.rng(0xC12_800 + c as u64);
        let buf = buffers[c % buffers.len()];
        if buf.is_none() && c >= 4 * buffers.len() { continue; }
        let buf_bits = std::cmp::max(64, ((buf.unwrap_or(1 << 16) + 63) / 64) * 64);
        // Total bit count around multiples of the buffer size; the last push ends exactly at, one bit over, or straddles the end.
        let target = match c % 7 { 0 => 0, 1 => buf_bits, 2 => buf_bits + 1, 3 => buf_bits - 1, 4 => 2 * buf_bits + rng.below(70), 5 => buf_bits + 63, _ => rng.below(3 * buf_bits + 100) };
        let target = std::cmp::min(target, 20000);
        let mut pushes: Vec<RPush> = Vec::new();
        let mut bits = 0usize;
        while bits < target {
            let left = target - bits;
            if rng.chance(1, 4) { pushes.push(RPush::Bit(rng.chance(1, 2))); bits += 1; }
            else {
                let w = match rng.below(5) { 0 => 0, 1 => 64, 2 => 63, _ => rng.below(65) };
                let w = std::cmp::min(w, left);
                let v = match rng.below(3) { 0 => !0u64, 1 => 0xAAAA_AAAA_AAAA_AAAA, _ => rng.next_u64() };
                pushes.push(RPush::Int(v, w));
                bits += w;
            }
        }
        let mode = MODES[rng.below(4)];
        raw_case(ctx, buf, &pushes, mode, c as u64);
        ctx.case(hash64(&[3, buf.unwrap_or(usize::MAX) as u64, target as u64, mode as u64, pushes.len() as u64]), true);
        ctx.sample(|| format!("raw: buf_len={:?} bits={} pushes={} mode={:?}", buf, target, pushes.len(), mode));
    }
}
