// C11: conversions between bitvector types preserve the bits and are canonical.

use simple_sds::bit_vector::BitVector;
use simple_sds::ops::{BitVec, Select};
use simple_sds::rl_vector::RLVector;
use simple_sds::sparse_vector::SparseVector;

use crate::drivers::c02::ser;
use crate::drivers::c03::{build as rl_build, Decomp};
use crate::gen;
use crate::mk;
use crate::models::{Model, SetModel};
use crate::util::{guard, hash64, Ctx, Rng};

pub fn run(ctx: &mut Ctx) {
    let part = ctx.part.clone();
    if part.is_empty() || part == "small" { small(ctx); }
    if part.is_empty() || part == "gen" { generated(ctx); }
    if part.is_empty() || part == "huge" { huge(ctx); }
}

// The two compressed types over universes that no plain bitvector can hold: gaps of 2^48 … 2^63 between a few
// values and short runs; every Sparse/RL conversion chain, compared with the directly built target.
fn huge(ctx: &mut Ctx) {
    let chains: Vec<Vec<usize>> = vec![vec![1, 2], vec![2, 1], vec![1, 2, 1], vec![2, 1, 2], vec![1, 2, 1, 2], vec![2, 1, 2, 1], vec![1, 1], vec![2, 2]];
    let cases = ctx.size(40, 400);
    for c in 0..cases {
        if !ctx.begin_case() { continue; }
        let mut rng = ctx.rng(0xC11_800 + c as u64);
        let n: usize = match c % 6 { 0 => (1usize << 48) + rng.below(1 << 20), 1 => 1usize << (49 + rng.below(14)), 2 => (1usize << 63) + rng.below(1 << 62), 3 => usize::MAX - rng.below(3), 4 => (1usize << 52) - 1, _ => 1usize << 60 };
        let groups = 1 + rng.below(if cfg!(miri) { 4 } else { 40 });
        let mut pos: Vec<usize> = Vec::new();
        for g in 0..groups {
            let base = match (g + c) % 4 { 0 => rng.below(n), 1 => n - 1 - rng.below(1000), 2 => rng.below(1 << 20), _ => (rng.below(n) >> 48) << 48 };
            let run = 1 + if rng.chance(1, 3) { rng.below(70) } else { 0 };
            for k in 0..run { if let Some(p) = base.checked_add(k) { if p < n { pos.push(p); } } }
        }
        pos.sort_unstable(); pos.dedup();
        let m = SetModel::new(n, pos.clone());
        let directs: [Result<Any, String>; 3] = [Err("no plain bitvector over this universe".to_string()), direct(&m, 1), direct(&m, 2)];
        for k in 1..3 { if let Err(e) = &directs[k] { ctx.violation("convert.construct", format!("direct construction of {} failed ({}) on {}", NAMES[k], e, m.describe())); } }
        for ch in chains.iter() {
            check_chain(ctx, &m, ch, false, &directs, 1 << 20);
            check_chain(ctx, &m, ch, true, &directs, 1 << 20);
        }
        ctx.case(hash64(&[3, n as u64, hash64(&pos.iter().map(|x| *x as u64).collect::<Vec<u64>>())]), pos.len() >= 2);
        ctx.sample(|| format!("huge: universe={} values={} x {} Sparse/RL chains (From and copy_bit_vec)", n, pos.len(), chains.len()));
    }
}

#[derive(Clone, Debug, PartialEq, Eq)]
enum Any { B(BitVector), S(SparseVector), R(RLVector) }

impl Any {
    fn kind(&self) -> usize { match self { Any::B(_) => 0, Any::S(_) => 1, Any::R(_) => 2 } }
    fn bytes(&self) -> Vec<u8> { match self { Any::B(x) => ser(x), Any::S(x) => ser(x), Any::R(x) => ser(x) } }
    fn len(&self) -> usize { match self { Any::B(x) => x.len(), Any::S(x) => x.len(), Any::R(x) => x.len() } }
    fn positions(&self, max: usize) -> Vec<usize> {
        match self {
            Any::B(x) => x.one_iter().take(max).map(|p| p.1).collect(),
            Any::S(x) => x.one_iter().take(max).map(|p| p.1).collect(),
            Any::R(x) => x.one_iter().take(max).map(|p| p.1).collect(),
        }
    }
    // Conversion into `target`; `via_copy` chooses copy_bit_vec over From.
    fn convert(self, target: usize, via_copy: bool) -> Any {
        match (self, target) {
            (Any::B(x), 1) => Any::S(if via_copy { SparseVector::copy_bit_vec(&x) } else { SparseVector::from(x) }),
            (Any::B(x), 2) => Any::R(if via_copy { RLVector::copy_bit_vec(&x) } else { RLVector::from(x) }),
            (Any::S(x), 0) => Any::B(if via_copy { BitVector::copy_bit_vec(&x) } else { BitVector::from(x) }),
            (Any::S(x), 2) => Any::R(if via_copy { RLVector::copy_bit_vec(&x) } else { RLVector::from(x) }),
            (Any::R(x), 0) => Any::B(if via_copy { BitVector::copy_bit_vec(&x) } else { BitVector::from(x) }),
            (Any::R(x), 1) => Any::S(if via_copy { SparseVector::copy_bit_vec(&x) } else { SparseVector::from(x) }),
            // Same-type copy_bit_vec is also a public route.
            (Any::B(x), _) => Any::B(BitVector::copy_bit_vec(&x)),
            (Any::S(x), _) => Any::S(SparseVector::copy_bit_vec(&x)),
            (Any::R(x), _) => Any::R(RLVector::copy_bit_vec(&x)),
        }
    }
}

// What the target type's own builder makes from the bits.
fn direct(m: &SetModel, kind: usize) -> Result<Any, String> {
    match kind {
        0 => guard(|| Any::B(mk::bv_set_bit(&m.to_bits()))),
        1 => mk::sparse_set(m.n, &m.ones).map(Any::S),
        _ => mk::rl_runs(m.n, &m.runs()).map(Any::R),
    }
}

const NAMES: [&str; 3] = ["BitVector", "SparseVector", "RLVector"];

fn chains() -> Vec<Vec<usize>> {
    // All type sequences with 1..=3 conversions (consecutive types differ), plus the three same-type copies.
    let mut out: Vec<Vec<usize>> = Vec::new();
    for a in 0..3 { for b in 0..3 { if a != b {
        out.push(vec![a, b]);
        for c in 0..3 { if c != b {
            out.push(vec![a, b, c]);
            for d in 0..3 { if d != c { out.push(vec![a, b, c, d]); } }
        } }
    } } }
    for a in 0..3 { out.push(vec![a, a]); }
    out
}

fn check_chain(ctx: &mut Ctx, m: &SetModel, chain: &[usize], via_copy: bool, directs: &[Result<Any, String>; 3], max_pos: usize) {
    let what = || format!("chain {} ({}) on {}", chain.iter().map(|k| NAMES[*k]).collect::<Vec<_>>().join(" -> "), if via_copy { "copy_bit_vec" } else { "From" }, m.describe());
    let start = match &directs[chain[0]] { Ok(x) => x.clone(), Err(_) => return };
    // One conversion at a time; before a value is fed to the next conversion its length and (a bounded prefix of) its
    // set positions are compared with the model, so that a conversion is never asked to walk a corrupted source
    // (which may claim 2^60 set bits and would never finish: a hang is not a verdict).
    let want: Vec<usize> = m.ones.iter().copied().take(max_pos).collect();
    let mut cur = start;
    for (step, &t) in chain.iter().enumerate() {
        ctx.checks += 1;
        if step > 0 {
            cur = match guard(move || cur.convert(t, via_copy)) {
                Ok(r) => r,
                Err(p) => { ctx.violation("convert!panic", format!("{} panicked at conversion {}: {}", what(), step, p)); return; },
            };
        }
        if cur.kind() != t { ctx.violation("convert.kind", what()); return; }
        if cur.len() != m.n {
            ctx.violation("convert.len", format!("{}: length {} after {} conversion(s)", what(), cur.len(), step));
            return;
        }
        match guard(|| cur.positions(std::cmp::min(max_pos, want.len() + 1))) {
            Ok(p) => { if p != want { ctx.violation("convert.positions", format!("{}: set positions after {} conversion(s): {:?}", what(), step, &p[..std::cmp::min(p.len(), 30)])); return; } },
            Err(e) => { ctx.violation("convert.positions!panic", format!("{}: {}", what(), e)); return; },
        }
    }
    let result = cur;
    let target = chain[chain.len() - 1];
    if let Ok(d) = &directs[target] {
        if result != *d { ctx.violation("convert.canonical.eq", format!("{}: result is not == to the directly built {}", what(), NAMES[target])); return; }
        if result.bytes() != d.bytes() { ctx.violation("convert.canonical.bytes", format!("{}: result serializes differently from the directly built {}", what(), NAMES[target])); }
    }
}

fn check_all(ctx: &mut Ctx, m: &SetModel, rng: &mut Rng, all_chains: &[Vec<usize>], max_pos: usize, few: bool) {
    let directs: [Result<Any, String>; 3] = [direct(m, 0), direct(m, 1), direct(m, 2)];
    for (k, d) in directs.iter().enumerate() {
        if let Err(e) = d { ctx.violation("convert.construct", format!("direct construction of {} failed ({}) on {}", NAMES[k], e, m.describe())); }
    }
    for (ci, chain) in all_chains.iter().enumerate() {
        if few && chain.len() > 2 && (ci + m.n) % 4 != 0 { continue; }
        check_chain(ctx, m, chain, false, &directs, max_pos);
        if chain.len() <= 3 { check_chain(ctx, m, chain, true, &directs, max_pos); }
    }
    // A sparse vector that holds the same positions with duplicates (a multiset) converts to the same plain / run-length
    // vectors: the bits are what is preserved, not the multiplicities.
    if !m.ones.is_empty() && m.ones.len() <= 20_000 {
        let mut dup: Vec<usize> = Vec::with_capacity(m.ones.len() * 2);
        for (k, &p) in m.ones.iter().enumerate() { dup.push(p); if k % 3 != 1 { dup.push(p); } }
        if let Ok(ms) = mk::multiset_set(m.n, &dup) {
            // Only the plain bitvector is a target here: converting a MULTISET into a run-length vector is outside the
            // statement (it quantifies over bit sequences) and the library does not support it (copy_bit_vec replays
            // one_iter(), which repeats positions); that outcome is recorded as information only.
            if m.ones.len() <= 64 {
                let info = guard(|| RLVector::copy_bit_vec(&ms).len());
                ctx.count(if info.is_ok() { "info.multiset_to_rl_ok" } else { "info.multiset_to_rl_panics" }, 1);
            }
            for target in [0usize] {
                ctx.checks += 1;
                let r = guard(|| Any::S(ms.clone()).convert(target, m.n % 2 == 0));
                match (r, &directs[target]) {
                    (Ok(x), Ok(d)) => {
                        if x != *d { ctx.violation("convert.multiset.eq", format!("{} converted from a multiset sparse vector is not == to the directly built one on {}", NAMES[target], m.describe())); }
                        else if x.bytes() != d.bytes() { ctx.violation("convert.multiset.bytes", format!("{} converted from a multiset sparse vector serializes differently on {}", NAMES[target], m.describe())); }
                    },
                    (Err(p), _) => ctx.violation("convert.multiset!panic", format!("conversion of a multiset sparse vector to {} panicked ({}) on {}", NAMES[target], p, m.describe())),
                    _ => {},
                }
            }
        }
    }
    // Construction-route independence: every decomposition of the same run list gives the same RLVector ...
    if let Ok(Any::R(d)) = &directs[2] {
        let runs = m.runs();
        let decomps: Vec<Decomp> = if m.ones.len() <= 3000 { vec![Decomp::Split, Decomp::Bits, Decomp::SplitWithSetLen] } else { vec![Decomp::Split, Decomp::SplitWithSetLen] };
        for dc in decomps {
            ctx.checks += 1;
            match rl_build(m.n, &runs, dc, rng) {
                Ok(rv) => {
                    if rv != *d { ctx.violation("route.rl.eq", format!("RLVector built by {:?} is not == to the one built from maximal runs on {}", dc, m.describe())); }
                    else if ser(&rv) != ser(d) { ctx.violation("route.rl.bytes", format!("RLVector built by {:?} serializes differently from the one built from maximal runs on {}", dc, m.describe())); }
                },
                Err(e) => ctx.violation("route.rl.construct", format!("{:?} failed ({}) on {}", dc, e, m.describe())),
            }
        }
    }
    // ... every raw-vector / iterator route gives the same BitVector ...
    if let Ok(Any::B(d)) = &directs[0] {
        let bits = m.to_bits();
        let via_pops = guard(|| BitVector::from(mk::raw_push_pop(&bits, rng)));
        for (name, bv) in [("raw.push", guard(|| mk::bv_push(&bits, rng))), ("from_iter", guard(|| mk::bv_iter(&bits))), ("raw.push_pop", via_pops)] {
            ctx.checks += 1;
            match bv {
                Ok(bv) => {
                    if bv != *d { ctx.violation("route.bitvector.eq", format!("BitVector built by {} is not == to the one built by set_bit on {}", name, m.describe())); }
                    else if ser(&bv) != ser(d) { ctx.violation("route.bitvector.bytes", format!("BitVector built by {} serializes differently on {}", name, m.describe())); }
                },
                Err(e) => ctx.violation("route.bitvector.construct", format!("{} failed ({}) on {}", name, e, m.describe())),
            }
        }
    }
    // ... and every sparse builder route gives the same SparseVector.
    if let Ok(Any::S(d)) = &directs[1] {
        for (name, sv) in [("try_set", mk::sparse_try_set(m.n, &m.ones)), ("extend", mk::sparse_extend(m.n, &m.ones))] {
            ctx.checks += 1;
            match sv {
                Ok(sv) => {
                    if sv != *d { ctx.violation("route.sparse.eq", format!("SparseVector built by {} is not == to the one built by set on {}", name, m.describe())); }
                    else if ser(&sv) != ser(d) { ctx.violation("route.sparse.bytes", format!("SparseVector built by {} serializes differently on {}", name, m.describe())); }
                },
                Err(e) => ctx.violation("route.sparse.construct", format!("{} failed ({}) on {}", name, e, m.describe())),
            }
        }
    }
}

fn small(ctx: &mut Ctx) {
    let max_n = ctx.size(10, 12);
    let all_chains = chains();
    let mut index = 0u64;
    for n in 0..=max_n {
        for code in 0..(1u64 << n) {
            index += 1;
            if !ctx.mine(index) { continue; }
            if !ctx.begin_case() { continue; }
            let bits = gen::pattern(n, code);
            let m = SetModel::from_bits(&bits);
            let mut rng = ctx.rng(index);
            check_all(ctx, &m, &mut rng, &all_chains, 1 << 20, false);
            ctx.case(hash64(&[1, n as u64, code]), n <= 1 || (!m.ones.is_empty() && m.ones.len() < n));
            ctx.sample(|| format!("small: bits={} x {} conversion chains (From and copy_bit_vec) + builder decompositions", crate::util::fmt_bits(&bits, 64), all_chains.len()));
        }
    }
    ctx.note("cov.chains", format!("{} type sequences with 1..=3 conversions + 3 same-type copies", all_chains.len()));
}

fn generated(ctx: &mut Ctx) {
    let all_chains = chains();
    let cases = ctx.size(120, 1500);
    for c in 0..cases {
        if !ctx.begin_case() { continue; }
        let mut rng = ctx.rng(0xC11_000 + c as u64);
        let n = match c % 6 { 0 => gen::BOUNDARY_LENGTHS[rng.below(18)], 1 => rng.below(300), 2 => 1000 + rng.below(3000), 3 => 64 * (1 + rng.below(40)), 4 => 20000 - rng.below(3), _ => rng.below(20000) };
        let d = *rng.pick(&gen::DENSITIES);
        let s = *rng.pick(&gen::SHAPES);
        let bits = gen::bits(&mut rng, n, d, s);
        let m = SetModel::from_bits(&bits);
        check_all(ctx, &m, &mut rng, &all_chains, 1 << 20, n > 2000);
        ctx.case(hash64(&[2, n as u64, hash64(&m.ones.iter().map(|x| *x as u64).collect::<Vec<u64>>())]), true);
        ctx.sample(|| format!("gen: len={} density={:?} shape={:?} ones={} x conversion chains + builder decompositions", n, d, s, m.ones.len()));
    }
}
