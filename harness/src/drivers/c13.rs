// C13: memory-mapped views expose exactly the serialized content at any offset; views tile the file; bad offsets and
// structures cut short by a truncated file are refused with an error.

use simple_sds::int_vector::{IntVector, IntVectorMapper};
use simple_sds::ops::{Vector, Access, Push};
use simple_sds::raw_vector::{RawVector, RawVectorMapper, AccessRaw};
use simple_sds::serialize::{MappedBytes, MappedOption, MappedSlice, MappedStr, MappingMode, MemoryMap, MemoryMapped, Serialize};

use crate::mk;
use crate::util::{guard, hash64, hash_bytes, Ctx, Rng};

pub fn run(ctx: &mut Ctx) {
    files(ctx);
    page_exact(ctx);
    four_gibibits(ctx);
}

// Files whose size is an exact number of pages and whose last structure is a raw / integer vector, with an
// inaccessible page placed right behind the mapping when the address is free: a view that reads even one byte past the
// file dies with SIGSEGV instead of exposing "exactly the content that loading would give". (Without the guard page the
// stray read lands in whatever happens to be mapped there and stays invisible.)
fn page_exact(ctx: &mut Ctx) {
    let cases = ctx.size(12, 100);
    let mut guarded = 0u64;
    for c in 0..cases {
        if !ctx.begin_case() { continue; }
        let mut rng: Rng = ctx.rng(0xC13_900 + c as u64);
        let pages = 1 + c % 3;
        let last = if c % 2 == 0 {
            let w = *rng.pick(&[1usize, 7, 13, 31, 32, 33, 57, 59, 61, 63, 64]);
            let mut iv = IntVector::new(w).unwrap();
            for _ in 0..(1 + rng.below(300)) { iv.push(rng.next_u64() | (1u64 << 63)); }
            Item::Int(iv)
        } else {
            let bits: Vec<bool> = (0..(1 + rng.below(4000))).map(|_| rng.chance(2, 3)).collect();
            Item::Raw(mk::raw_set_bit(&bits))
        };
        let mut tail: Vec<u8> = Vec::new();
        last.write(&mut tail);
        let filler_items = pages * 512 - 1 - tail.len() / 8;
        let filler = Item::VU((0..filler_items).map(|i| i as u64).collect());
        let mut bytes: Vec<u8> = Vec::new();
        filler.write(&mut bytes);
        let offset = bytes.len() / 8;
        bytes.extend_from_slice(&tail);
        assert_eq!(bytes.len(), pages * 4096);
        let name = format!("{}/vmon-c13-{}-{}-page{}", ctx.tmpdir, std::process::id(), ctx.shard, c);
        std::fs::write(&name, &bytes).unwrap();
        // Reserve pages+1 inaccessible pages, then give the first `pages` back: the kernel places the next mapping of
        // that size into the hole (top-down first fit), directly in front of the page that stays inaccessible.
        let span = (pages + 1) * 4096;
        let reserve = unsafe { libc::mmap(std::ptr::null_mut(), span, libc::PROT_NONE, libc::MAP_PRIVATE | libc::MAP_ANONYMOUS, -1, 0) };
        let guard_addr = if reserve == libc::MAP_FAILED { 0 } else { unsafe { libc::munmap(reserve, pages * 4096); } reserve as usize + pages * 4096 };
        let map = match guard(|| MemoryMap::new(&name, if c % 4 < 2 { MappingMode::ReadOnly } else { MappingMode::Mutable })) {
            Ok(Ok(m)) => m,
            _ => { ctx.violation("map.new", format!("MemoryMap::new failed on a file of {} pages", pages)); let _ = std::fs::remove_file(&name); continue; },
        };
        let end = { let sl: &[u64] = map.as_ref(); sl.as_ptr() as usize + sl.len() * 8 };
        let g = guard_addr as *mut libc::c_void;
        let have_guard = guard_addr != 0 && end == guard_addr;
        if have_guard { guarded += 1; }
        crate::drivers::c08::note_call(&format!("C13 page_exact: views of {} at element offset {} of a {}-page file, guard page behind the mapping: {}", last.kind(), offset, pages, have_guard));
        let got = guard(|| view(&map, offset, &last));
        ctx.expect_eq(&format!("view.page_exact.{}", last.kind()), || format!("view of {} ending exactly at the end of a {}-page file (guard page: {})", last.kind(), pages, have_guard), &got, &Ok((offset, pages * 512 - offset, true)));
        drop(map);
        if guard_addr != 0 { unsafe { libc::munmap(g, 4096); } }
        let _ = std::fs::remove_file(&name);
        ctx.case(hash64(&[9, c as u64, pages as u64, hash_bytes(&tail)]), true);
        ctx.sample(|| format!("page_exact: {}-page file ending with {} ({} elements), guard page behind the mapping: {}", pages, last.kind(), tail.len() / 8, have_guard));
    }
    ctx.count("page_exact.guard_pages_placed", guarded);
}

#[derive(Clone, Debug, PartialEq)]
pub enum Item { VU(Vec<u64>), VP(Vec<(u64, u64)>), Bytes(Vec<u8>), Str(String), Opt(Option<Vec<u64>>), Raw(RawVector), Int(IntVector), OptWide(Vec<u64>, String) }

// A user-defined structure with two members, as in the documentation of the Serialize trait. Stored as an optional
// structure and viewed through MappedOption<view of the first member>: the view's extent is the optional structure's.
#[derive(Clone, Debug, PartialEq)]
struct TwoMembers(Vec<u64>, String);

impl Serialize for TwoMembers {
    fn serialize_header<T: std::io::Write>(&self, _: &mut T) -> std::io::Result<()> { Ok(()) }
    fn serialize_body<T: std::io::Write>(&self, writer: &mut T) -> std::io::Result<()> { self.0.serialize(writer)?; self.1.serialize(writer) }
    fn load<T: std::io::Read>(reader: &mut T) -> std::io::Result<Self> { let a = Vec::<u64>::load(reader)?; let b = String::load(reader)?; Ok(TwoMembers(a, b)) }
    fn size_in_elements(&self) -> usize { self.0.size_in_elements() + self.1.size_in_elements() }
}

impl Item {
    pub fn random(rng: &mut Rng, allow_empty: bool) -> Item {
        let len = match rng.below(5) { 0 if allow_empty => 0, 1 => 1, 2 => 1 + rng.below(9), _ => 1 + rng.below(40) };
        match rng.below(9) {
            8 => Item::OptWide((0..len).map(|_| rng.next_u64()).collect(), (0..1 + rng.below(30)).map(|i| (b'A' + (i % 26) as u8) as char).collect()),
            0 => Item::VU((0..len).map(|_| rng.next_u64()).collect()),
            1 => Item::VP((0..len).map(|_| (rng.next_u64(), rng.next_u64())).collect()),
            2 => Item::Bytes((0..len).map(|_| rng.next_u64() as u8 | 1).collect()),
            3 => { let exotic = rng.chance(1, 2); Item::Str((0..len).map(|i| if exotic && i % 3 == 1 { ['é', 'ß', '漢', '😀', 'ñ'][i % 5] } else { (b'a' + ((i * 7) % 26) as u8) as char }).collect()) },
            4 => Item::Opt(Some((0..len).map(|_| rng.next_u64()).collect())),
            5 => Item::Opt(None),
            6 => { let bits: Vec<bool> = (0..len * 13).map(|_| rng.chance(1, 2)).collect(); Item::Raw(mk::raw_set_bit(&bits)) },
            _ => { let w = 1 + rng.below(64); let mut iv = IntVector::new(w).unwrap(); for _ in 0..len { iv.push(rng.next_u64()); } Item::Int(iv) },
        }
    }

    pub fn write(&self, out: &mut Vec<u8>) {
        match self {
            Item::VU(x) => x.serialize(out), Item::VP(x) => x.serialize(out), Item::Bytes(x) => x.serialize(out), Item::Str(x) => x.serialize(out),
            Item::Opt(x) => x.serialize(out), Item::Raw(x) => x.serialize(out), Item::Int(x) => x.serialize(out),
            Item::OptWide(a, b) => Some(TwoMembers(a.clone(), b.clone())).serialize(out),
        }.unwrap();
    }

    pub fn kind(&self) -> &'static str {
        match self { Item::VU(_) => "Vec<u64>", Item::VP(_) => "Vec<(u64,u64)>", Item::Bytes(_) => "Vec<u8>", Item::Str(_) => "String", Item::Opt(Some(_)) => "Option<Vec<u64>>=Some", Item::Opt(None) => "Option<Vec<u64>>=None", Item::Raw(_) => "RawVector", Item::Int(_) => "IntVector", Item::OptWide(_, _) => "Option<{Vec<u64>,String}>" }
    }
}

// Creates the matching view at `offset`. Ok((map_offset, map_len, content_matches)) or Err(io error text); panics are caught by the caller.
pub fn view(map: &MemoryMap, offset: usize, item: &Item) -> Result<(usize, usize, bool), String> {
    match item {
        Item::VU(v) => {
            let m = MappedSlice::<u64>::new(map, offset).map_err(|e| e.to_string())?;
            let same = m.len() == v.len() && m.as_ref() == v.as_slice() && m.is_empty() == v.is_empty() && (0..v.len()).all(|i| m[i] == v[i]) && m.iter().copied().eq(v.iter().copied());
            Ok((m.map_offset(), m.map_len(), same))
        },
        Item::VP(v) => {
            let m = MappedSlice::<(u64, u64)>::new(map, offset).map_err(|e| e.to_string())?;
            let same = m.len() == v.len() && m.as_ref() == v.as_slice() && (0..v.len()).all(|i| m[i] == v[i]);
            Ok((m.map_offset(), m.map_len(), same))
        },
        Item::Bytes(v) => {
            let m = MappedBytes::new(map, offset).map_err(|e| e.to_string())?;
            let same = m.len() == v.len() && m.as_ref() == v.as_slice() && m.is_empty() == v.is_empty() && (0..v.len()).all(|i| m[i] == v[i]);
            Ok((m.map_offset(), m.map_len(), same))
        },
        Item::Str(v) => {
            let m = MappedStr::new(map, offset).map_err(|e| e.to_string())?;
            let same = m.len() == v.len() && m.as_ref() == v.as_str() && m.is_empty() == v.is_empty() && &*m == v.as_str();
            Ok((m.map_offset(), m.map_len(), same))
        },
        Item::Opt(v) => {
            let m = MappedOption::<MappedSlice<u64>>::new(map, offset).map_err(|e| e.to_string())?;
            let same = match v {
                Some(x) => m.is_some() && !m.is_none() && m.unwrap().as_ref() == x.as_slice() && m.as_ref().map(|s| s.len()) == Some(x.len()),
                None => m.is_none() && !m.is_some() && m.as_ref().is_none(),
            };
            Ok((m.map_offset(), m.map_len(), same))
        },
        Item::OptWide(a, _) => {
            let m = MappedOption::<MappedSlice<u64>>::new(map, offset).map_err(|e| e.to_string())?;
            let same = m.is_some() && m.unwrap().as_ref() == a.as_slice();
            Ok((m.map_offset(), m.map_len(), same))
        },
        Item::Raw(v) => {
            let m = RawVectorMapper::new(map, offset).map_err(|e| e.to_string())?;
            let words: &[u64] = v.as_ref();
            let same = m.len() == v.len() && m.is_empty() == v.is_empty() && m.count_ones() == v.count_ones() && (0..v.len()).all(|i| m.bit(i) == v.bit(i))
                && (0..words.len()).all(|i| m.word(i) == words[i]) && !m.is_mutable()
                && (0..v.len().saturating_sub(17)).step_by(7).all(|i| unsafe { m.int(i, 17) == v.int(i, 17) })
                && (0..v.len().saturating_sub(64)).step_by(13).all(|i| unsafe { m.int(i, 64) == v.int(i, 64) && m.int(i, 1) == v.int(i, 1) && m.int(i, 0) == 0 && m.int(i, 63) == v.int(i, 63) });
            Ok((m.map_offset(), m.map_len(), same))
        },
        Item::Int(v) => {
            let m = IntVectorMapper::new(map, offset).map_err(|e| e.to_string())?;
            let same = m.len() == v.len() && m.width() == v.width() && m.is_empty() == v.is_empty() && (0..v.len()).all(|i| m.get(i) == v.get(i)) && m.iter().eq(v.iter()) && !m.is_mutable()
                // the view's iterator behaves like the loaded vector's: skipped to the end, from the back, cloned in mid-flight
                && m.iter().nth(v.len()).is_none() && m.iter().skip(v.len()).next().is_none() && m.iter().rev().eq(v.iter().rev())
                && { let mut a = m.iter(); let mut b = v.iter(); let k = v.len() / 3; (0..k).all(|_| a.next_back() == b.next_back()) && a.len() == b.len() && a.nth(v.len()) == b.nth(v.len()) && a.len() == 0 };
            Ok((m.map_offset(), m.map_len(), same))
        },
    }
}

// One structure with more than 2^32 set bits (half a gibibyte of ones): counts that no longer fit 32 bits.
fn four_gibibits(ctx: &mut Ctx) {
    // Quick tier: in the release leg only (about ten seconds and a 512 MiB temporary file).
    if cfg!(miri) || (ctx.quick() && ctx.cfg != "rel") || !(ctx.cfg == "rel" || ctx.cfg == "dbg") || !ctx.mine(3) || !ctx.begin_case() { return; }
    let n: usize = (1usize << 32) + 65_536 + 17;
    let name = format!("{}/vmon-c13-4g-{}-{}", ctx.tmpdir, std::process::id(), ctx.shard);
    let r = guard(|| -> Result<(usize, usize, bool, bool, usize), String> {
        let raw = RawVector::with_len(n, true);
        let ones = raw.count_ones();
        {
            let mut f = std::io::BufWriter::new(std::fs::File::create(&name).map_err(|e| e.to_string())?);
            vec![7u64, 8, 9].serialize(&mut f).map_err(|e| e.to_string())?;
            raw.serialize(&mut f).map_err(|e| e.to_string())?;
            "behind".to_string().serialize(&mut f).map_err(|e| e.to_string())?;
            std::io::Write::flush(&mut f).map_err(|e| e.to_string())?;
        }
        drop(raw);
        let map = MemoryMap::new(&name, MappingMode::ReadOnly).map_err(|e| e.to_string())?;
        let m = RawVectorMapper::new(&map, 4).map_err(|e| e.to_string())?;
        let next = MappedStr::new(&map, m.map_offset() + m.map_len()).map_err(|e| e.to_string())?;
        Ok((ones, m.count_ones(), m.len() == n, &*next == "behind", m.map_len()))
    });
    let _ = std::fs::remove_file(&name);
    ctx.expect_eq("view.RawVector.4gibibits", || format!("(count_ones before writing, count_ones through the mapper, len equal, next structure found, map_len) for a raw vector of {} set bits", n), &r, &Ok((n, n, true, true, 2 + (n + 63) / 64)));
    ctx.case(hash64(&[0x4613, n as u64]), true);
    ctx.sample(|| format!("4 gibibits: a raw vector of {} set bits between two other structures in one mapped file", n));
}

fn all_kinds() -> Vec<Item> {
    vec![Item::VU(vec![]), Item::VP(vec![]), Item::Bytes(vec![]), Item::Str(String::new()), Item::Opt(None), Item::Raw(RawVector::new()), Item::Int(IntVector::new(5).unwrap())]
}

fn files(ctx: &mut Ctx) {
    let cases = ctx.size(50, 600);
    for c in 0..cases {
        if !ctx.begin_case() { continue; }
        let mut rng: Rng = ctx.rng(0xC13_000 + c as u64);
        let count = 1 + rng.below(8);
        let mut items: Vec<Item> = (0..count).map(|_| Item::random(&mut rng, true)).collect();
        // Empty structures in last position are the classic off-by-one.
        if c % 3 == 0 { let e = all_kinds(); items.push(e[rng.below(e.len())].clone()); }
        let mut bytes: Vec<u8> = Vec::new();
        let mut offsets: Vec<usize> = Vec::new();
        for it in items.iter() { offsets.push(bytes.len() / 8); it.write(&mut bytes); }
        let total = bytes.len() / 8;
        offsets.push(total);
        let kinds: Vec<&str> = items.iter().map(|i| i.kind()).collect();
        let name = format!("{}/vmon-c13-{}-{}-{}", ctx.tmpdir, std::process::id(), ctx.shard, c);
        std::fs::write(&name, &bytes).unwrap();
        let what = || format!("file of {} elements holding {:?} at element offsets {:?}", total, kinds, &offsets[..offsets.len() - 1]);

        let map = match guard(|| MemoryMap::new(&name, MappingMode::ReadOnly)) {
            Ok(Ok(m)) => m,
            other => { ctx.violation("map.new", format!("MemoryMap::new failed ({:?}) on {}", other.map(|r| r.map(|_| ()).map_err(|e| e.to_string())), what())); let _ = std::fs::remove_file(&name); continue; },
        };
        ctx.expect_eq("map.len", || format!("MemoryMap::len() on {}", what()), &guard(|| map.len()), &total);

        // (1) Every structure at its own offset: same content; offset + length = next structure's offset.
        for (i, it) in items.iter().enumerate() {
            let got = guard(|| view(&map, offsets[i], it));
            ctx.expect_eq(&format!("view.{}", it.kind()), || format!("view of {} (#{}) -> (map_offset, map_len, content equal) on {}", it.kind(), i, what()), &got, &Ok((offsets[i], offsets[i + 1] - offsets[i], true)));
        }
        // (2) Chaining: the next view starts where the previous one says it ends.
        let mut at = 0usize;
        for (i, it) in items.iter().enumerate() {
            match guard(|| view(&map, at, it)) {
                Ok(Ok((o, l, same))) => {
                    ctx.checks += 1;
                    if o != at || !same { ctx.violation("view.chain", format!("chained view of {} (#{}) at {}: map_offset {}, content equal {} on {}", it.kind(), i, at, o, same, what())); break; }
                    at = o + l;
                },
                other => { ctx.violation("view.chain", format!("chained view of {} (#{}) at {} failed: {:?} on {}", it.kind(), i, at, other, what())); break; },
            }
        }
        ctx.checks += 1;
        if at != total && !ctx.violations.iter().any(|v| v.sig == "view.chain") { ctx.violation("view.chain.end", format!("views tile {} of {} elements on {}", at, total, what())); }
        // (3) Offsets outside the file: every view type must refuse with an error (no panic).
        for &bad in &[total, total + 1, 2 * total, (1usize << 63) - 1, 1usize << 63, usize::MAX - 2, usize::MAX - 1, usize::MAX] {
            for it in all_kinds().iter().chain(std::iter::once(&Item::Opt(Some(vec![1])))) {
                let got = guard(|| view(&map, bad, it).is_err());
                let cls = if bad >= 1usize << 62 { "extreme" } else { "past_end" };
                ctx.expect_eq(&format!("view.bad_offset.{}.{}", it.kind(), cls), || format!("{} view at offset {} is refused, on {}", it.kind(), bad, what()), &got, &true);
            }
        }
        drop(map);

        // (4) Every 8-byte truncation of the file x every structure.
        let tname = format!("{}.cut", name);
        let step = if total > 300 { 1 + total / 300 } else { 1 };
        let mut k = 0usize;
        while k < total {
            std::fs::write(&tname, &bytes[..k * 8]).unwrap();
            match guard(|| MemoryMap::new(&tname, MappingMode::ReadOnly)) {
                Ok(Ok(tmap)) => {
                    for (i, it) in items.iter().enumerate() {
                        let got = guard(|| view(&tmap, offsets[i], it));
                        if offsets[i + 1] <= k {
                            // Untouched by the cut.
                            ctx.expect_eq(&format!("view.{}", it.kind()), || format!("view of {} (#{}) with the file cut to {} elements (structure untouched) on {}", it.kind(), i, k, what()), &got, &Ok((offsets[i], offsets[i + 1] - offsets[i], true)));
                        } else {
                            // Offset outside the file, or the structure is cut short: must be refused.
                            ctx.checks += 1;
                            match got {
                                Ok(Err(_)) => {},
                                Ok(Ok(r)) => ctx.violation(&format!("view.truncated.accepted.{}", it.kind()), format!("view of {} (#{}, elements {}..{}) was granted ({:?}) although the file is cut to {} elements, on {}", it.kind(), i, offsets[i], offsets[i + 1], r, k, what())),
                                Err(p) => ctx.violation(&format!("view.truncated!panic.{}", it.kind()), format!("view of {} (#{}, elements {}..{}) panicked ({}) with the file cut to {} elements, on {}", it.kind(), i, offsets[i], offsets[i + 1], p, k, what())),
                            }
                        }
                    }
                },
                Ok(Err(_)) if k == 0 => {}, // an empty file may be refused by MemoryMap::new (C18 decides that)
                other => ctx.violation("map.new", format!("MemoryMap::new failed on a {}-element prefix: {:?}", k, other.map(|r| r.map(|_| ()).map_err(|e| e.to_string())))),
            }
            k += step;
        }
        let _ = std::fs::remove_file(&tname);
        let _ = std::fs::remove_file(&name);
        ctx.case(hash64(&[1, hash_bytes(&bytes)]), items.len() >= 2);
        ctx.sample(|| format!("file: {:?} ({} elements): every view at its offset, chained, 8 bad offsets x 8 view types, {} truncations x {} structures", kinds, total, total / step, items.len()));
    }
}
