// C10: every iterator yields the reference sequence under any interleaving of calls.
//
// Parts: exh (every call sequence of length <= L over the 9-/5-call alphabets on every bit pattern of length <= 6,
// every iterator type), rand (random histories of up to 300 calls on structured instances, all starting points).

use simple_sds::int_vector::IntVector;
use simple_sds::ops::{Access, VectorIndex, BitVec, Select, SelectZero, PredSucc};
use simple_sds::wavelet_matrix::WaveletMatrix;

use crate::gen;
use crate::iterhist::{self as ih, Call, DynIter};
use crate::mk;
use crate::models::{Model, SetModel};
use crate::util::{hash64, hash_str, Ctx, Rng};

pub fn run(ctx: &mut Ctx) {
    let part = ctx.part.clone();
    if part.is_empty() || part == "exh" { exhaustive(ctx); }
    if part.is_empty() || part == "rand" { random(ctx); }
}

type PairIter<'a> = Box<dyn DynIter<(usize, usize)> + 'a>;

struct Suite<'a> {
    // (label, make iterator, reference)
    bits: Vec<(&'static str, Box<dyn Fn() -> Box<dyn DynIter<bool> + 'a> + 'a>, Vec<bool>)>,
    pairs: Vec<(String, Box<dyn Fn() -> PairIter<'a> + 'a>, Vec<(usize, usize)>)>,
    items: Vec<(&'static str, Box<dyn Fn() -> Box<dyn DynIter<u64> + 'a> + 'a>, Vec<u64>)>,
}

struct Structs {
    bits: Vec<bool>,
    bv: simple_sds::bit_vector::BitVector,
    sv: simple_sds::sparse_vector::SparseVector,
    rv: simple_sds::rl_vector::RLVector,
    ms: Option<(simple_sds::sparse_vector::SparseVector, Vec<usize>)>, // multiset with its values
    items: Vec<u64>,
    iv: IntVector,
    wm: WaveletMatrix,
}

fn build(bits: &[bool], dup: Option<&[usize]>) -> Result<Structs, String> {
    let m = SetModel::from_bits(bits);
    let n = bits.len();
    let mut bv = mk::bv_set_bit(bits);
    mk::enable_all(&mut bv);
    let sv = mk::sparse_set(n, &m.ones)?;
    // The run-length vector comes from one of four builder decompositions of the same runs (chosen by the content).
    let key = crate::util::hash64(&m.ones.iter().map(|x| *x as u64).chain([n as u64]).collect::<Vec<u64>>());
    let mut route_rng = crate::util::Rng::new(key);
    let decomp = [crate::drivers::c03::Decomp::Maximal, crate::drivers::c03::Decomp::Split, crate::drivers::c03::Decomp::Bits, crate::drivers::c03::Decomp::SplitWithSetLen][(key % 4) as usize];
    let rv = crate::drivers::c03::build(n, &m.runs(), decomp, &mut route_rng)?;
    let ms = match dup {
        Some(values) => Some((mk::multiset_set(n, values)?, values.to_vec())),
        None => None,
    };
    let items: Vec<u64> = (0..n).map(|i| ((i as u64 * 5 + 1) % 4) + if bits[i] { 4 } else { 0 }).collect();
    let iv = IntVector::from(items.clone());
    let wm = WaveletMatrix::from(items.clone());
    Ok(Structs { bits: bits.to_vec(), bv, sv, rv, ms, items, iv, wm })
}

// All iterators of all structures with all starting points (starting points limited to `starts` ranks/values).
fn suite<'a>(s: &'a Structs, starts: &[usize]) -> Suite<'a> {
    let n = s.bits.len();
    let ones: Vec<(usize, usize)> = s.bits.iter().enumerate().filter(|(_, b)| **b).map(|(i, _)| i).enumerate().collect();
    let zeros: Vec<(usize, usize)> = s.bits.iter().enumerate().filter(|(_, b)| !**b).map(|(i, _)| i).enumerate().collect();
    let mut bits: Vec<(&'static str, Box<dyn Fn() -> Box<dyn DynIter<bool> + 'a> + 'a>, Vec<bool>)> = Vec::new();
    bits.push(("bitvector.iter", Box::new(move || ih::bidi(s.bv.iter())), s.bits.clone()));
    bits.push(("sparse.iter", Box::new(move || ih::bidi(s.sv.iter())), s.bits.clone()));
    bits.push(("rl.iter", Box::new(move || ih::fwd(s.rv.iter())), s.bits.clone()));
    if let Some((ms, values)) = &s.ms {
        let mut distinct = vec![false; n];
        for &v in values { distinct[v] = true; }
        bits.push(("multiset.iter", Box::new(move || ih::bidi(ms.iter())), distinct));
    }

    let mut pairs: Vec<(String, Box<dyn Fn() -> PairIter<'a> + 'a>, Vec<(usize, usize)>)> = Vec::new();
    pairs.push(("bitvector.one_iter".into(), Box::new(move || ih::bidi(s.bv.one_iter())), ones.clone()));
    pairs.push(("bitvector.zero_iter".into(), Box::new(move || ih::bidi(s.bv.zero_iter())), zeros.clone()));
    pairs.push(("sparse.one_iter".into(), Box::new(move || ih::bidi(s.sv.one_iter())), ones.clone()));
    pairs.push(("sparse.zero_iter".into(), Box::new(move || ih::fwd(s.sv.zero_iter())), zeros.clone()));
    pairs.push(("rl.one_iter".into(), Box::new(move || ih::fwd(s.rv.one_iter())), ones.clone()));
    pairs.push(("rl.zero_iter".into(), Box::new(move || ih::fwd(s.rv.zero_iter())), zeros.clone()));
    let runs = SetModel::from_bits(&s.bits).runs();
    pairs.push(("rl.run_iter".into(), Box::new(move || ih::fwd_nolen(s.rv.run_iter())), runs));
    if let Some((ms, values)) = &s.ms {
        let all: Vec<(usize, usize)> = values.iter().copied().enumerate().collect();
        pairs.push(("multiset.one_iter".into(), Box::new(move || ih::bidi(ms.one_iter())), all));
    }
    for &r in starts {
        // Positioned iterators must continue with consecutive ranks to the end.
        let tail1: Vec<(usize, usize)> = ones[std::cmp::min(r, ones.len())..].to_vec();
        let tail0: Vec<(usize, usize)> = zeros[std::cmp::min(r, zeros.len())..].to_vec();
        pairs.push((format!("bitvector.select_iter({})", r), Box::new(move || ih::bidi(s.bv.select_iter(r))), tail1.clone()));
        pairs.push((format!("bitvector.select_zero_iter({})", r), Box::new(move || ih::bidi(s.bv.select_zero_iter(r))), tail0.clone()));
        pairs.push((format!("sparse.select_iter({})", r), Box::new(move || ih::bidi(s.sv.select_iter(r))), tail1.clone()));
        pairs.push((format!("sparse.select_zero_iter({})", r), Box::new(move || ih::fwd(s.sv.select_zero_iter(r))), tail0.clone()));
        pairs.push((format!("rl.select_iter({})", r), Box::new(move || ih::fwd(s.rv.select_iter(r))), tail1.clone()));
        pairs.push((format!("rl.select_zero_iter({})", r), Box::new(move || ih::fwd(s.rv.select_zero_iter(r))), tail0.clone()));
        // predecessor / successor of position r.
        let v = r;
        let p = ones.partition_point(|x| x.1 <= v);
        let pred: Vec<(usize, usize)> = if p == 0 { Vec::new() } else { ones[p - 1..].to_vec() };
        let q = ones.partition_point(|x| x.1 < v);
        let succ: Vec<(usize, usize)> = ones[q..].to_vec();
        pairs.push((format!("bitvector.predecessor({})", v), Box::new(move || ih::bidi(s.bv.predecessor(v))), pred.clone()));
        pairs.push((format!("bitvector.successor({})", v), Box::new(move || ih::bidi(s.bv.successor(v))), succ.clone()));
        pairs.push((format!("sparse.predecessor({})", v), Box::new(move || ih::bidi(s.sv.predecessor(v))), pred.clone()));
        pairs.push((format!("sparse.successor({})", v), Box::new(move || ih::bidi(s.sv.successor(v))), succ.clone()));
        pairs.push((format!("rl.predecessor({})", v), Box::new(move || ih::fwd(s.rv.predecessor(v))), pred.clone()));
        pairs.push((format!("rl.successor({})", v), Box::new(move || ih::fwd(s.rv.successor(v))), succ.clone()));
        // Occurrences of a value in the wavelet matrix, from rank r of value (r % 8).
        let val = (r % 8) as u64;
        let occ: Vec<(usize, usize)> = s.items.iter().enumerate().filter(|(_, x)| **x == val).map(|(i, _)| i).enumerate().collect();
        let rr = r / 2;
        pairs.push((format!("wm.select_iter({},{})", rr, val), Box::new(move || ih::fwd_nolen(s.wm.select_iter(rr, val))), occ[std::cmp::min(rr, occ.len())..].to_vec()));
        pairs.push((format!("wm.value_iter({})", val), Box::new(move || ih::fwd_nolen(s.wm.value_iter(val))), occ.clone()));
        let pp = occ.partition_point(|x| x.1 <= v);
        pairs.push((format!("wm.predecessor({},{})", v, val), Box::new(move || ih::fwd_nolen(s.wm.predecessor(v, val))), if pp == 0 { Vec::new() } else { occ[pp - 1..].to_vec() }));
        let qq = occ.partition_point(|x| x.1 < v);
        pairs.push((format!("wm.successor({},{})", v, val), Box::new(move || ih::fwd_nolen(s.wm.successor(v, val))), occ[qq..].to_vec()));
    }

    let mut items: Vec<(&'static str, Box<dyn Fn() -> Box<dyn DynIter<u64> + 'a> + 'a>, Vec<u64>)> = Vec::new();
    items.push(("int_vector.iter", Box::new(move || ih::bidi(s.iv.iter())), s.items.clone()));
    items.push(("int_vector.into_iter", Box::new(move || ih::fwd(s.iv.clone().into_iter())), s.items.clone()));
    items.push(("wm.iter", Box::new(move || ih::bidi(s.wm.iter())), s.items.clone()));
    items.push(("wm.into_iter", Box::new(move || ih::fwd(s.wm.clone().into_iter())), s.items.clone()));
    Suite { bits, pairs, items }
}

fn sig_of(label: &str) -> String {
    match label.find('(') { Some(p) => label[..p].to_string(), None => label.to_string() }
}

fn exhaustive(ctx: &mut Ctx) {
    let max_len = ctx.size(6, 6);
    let depth = ctx.size(4, 5);
    let mut index = 0u64;
    let mut histories = 0u64;
    for n in 0..=max_len {
        for code in 0..(1u64 << n) {
            index += 1;
            if !ctx.mine(index) { continue; }
            if !ctx.begin_case() { continue; }
            let bits = gen::pattern(n, code);
            // A multiset over the same universe: every set position twice, the first one three times.
            let pos = gen::positions(&bits);
            let mut dup: Vec<usize> = Vec::new();
            for (k, &p) in pos.iter().enumerate() { dup.push(p); dup.push(p); if k == 0 { dup.push(p); } }
            let s = match build(&bits, Some(&dup)) { Ok(s) => s, Err(e) => { ctx.violation("iter.construct", e); continue; } };
            let starts: Vec<usize> = (0..=n + 1).collect();
            let suite = suite(&s, &starts);
            let what = || format!("bits={}", crate::util::fmt_bits(&bits, 64));
            for (label, make, reference) in suite.bits.iter() {
                let de = make().double_ended();
                let alphabet: &[Call] = if de { &ih::BIDI_ALPHABET } else { &ih::FWD_ALPHABET };
                for d in 1..=depth {
                    for h in 0..(alphabet.len() as u64).pow(d as u32) {
                        let calls = ih::decode_history(alphabet, d, h);
                        histories += 1;
                        ih::run_history(ctx, label, make(), reference, &calls, &what);
                    }
                }
            }
            for (label, make, reference) in suite.pairs.iter() {
                let positioned = label.contains('(');
                let de = make().double_ended();
                let alphabet: &[Call] = if de { &ih::BIDI_ALPHABET } else { &ih::FWD_ALPHABET };
                // Positioned iterators: one level shallower (there are n+2 starting points of each kind).
                let dd = if positioned { depth - 1 } else { depth };
                let sig = sig_of(label);
                let what2 = || format!("{} on bits={}", label, crate::util::fmt_bits(&bits, 64));
                for d in 1..=dd {
                    for h in 0..(alphabet.len() as u64).pow(d as u32) {
                        let calls = ih::decode_history(alphabet, d, h);
                        histories += 1;
                        ih::run_history(ctx, &sig, make(), reference, &calls, &what2);
                    }
                }
            }
            for (label, make, reference) in suite.items.iter() {
                let de = make().double_ended();
                let alphabet: &[Call] = if de { &ih::BIDI_ALPHABET } else { &ih::FWD_ALPHABET };
                for d in 1..=depth - 1 {
                    for h in 0..(alphabet.len() as u64).pow(d as u32) {
                        let calls = ih::decode_history(alphabet, d, h);
                        histories += 1;
                        ih::run_history(ctx, label, make(), reference, &calls, &what);
                    }
                }
            }
            ctx.case(hash64(&[1, n as u64, code]), n >= 2);
            ctx.sample(|| format!("exh: bits={} x every iterator type and starting point x every call sequence of length <= {} over {:?}", crate::util::fmt_bits(&bits, 64), depth, ih::BIDI_ALPHABET));
        }
    }
    ctx.count("exh.histories", histories);
    ctx.note("cov.exh_depth", format!("{}", depth));
}

fn random(ctx: &mut Ctx) {
    let instances = ctx.size(60, 900);
    // In the coverage-guided leg one history per iterator and instance: the fuzzer supplies the variety.
    let per = if ctx.fuzz.is_some() { 1 } else { ctx.size(6, 12) };
    let mut histories = 0u64;
    for k in 0..instances {
        if !ctx.begin_case() { continue; }
        let mut rng: Rng = ctx.rng(0xC10_000 + k as u64);
        histories += random_case(ctx, &mut rng, k, per);
    }
    ctx.count("rand.histories", histories);
}

// One generated instance (shape family `k`), every iterator type and starting point, `per` random histories each.
// Also the entry point of the coverage-guided leg (fuzz.rs). Returns the number of histories run.
pub fn random_case(ctx: &mut Ctx, rng: &mut Rng, k: usize, per: usize) -> u64 {
    let mut histories = 0u64;
    // Set bits separated by 0..5 empty words, at word / block / bucket boundaries.
    let n = match k % 5 { 0 => 64 + rng.below(200), 1 => 512 + rng.below(3) - 1, 2 => 700 + rng.below(800), 3 => 1 + rng.below(70), _ => 4096 + rng.below(130) };
    let mut bits = vec![false; n];
    match k % 4 {
        0 => { let mut p = rng.below(64); while p < n { bits[p] = true; p += 1 + rng.below(6) * 64 + rng.below(3); } },
        1 => { for b in bits.iter_mut() { *b = rng.chance(1, 2); } },
        2 => { for w in 0..=(n / 64) { for d in [0usize, 63] { let p = w * 64 + d; if p < n && rng.chance(2, 3) { bits[p] = true; } } } },
        _ => { let d = *rng.pick(&gen::DENSITIES); let sh = *rng.pick(&gen::SHAPES); bits = gen::bits(rng, n, d, sh); },
    }
    let pos = gen::positions(&bits);
    let mut dup: Vec<usize> = Vec::new();
    for &p in pos.iter() { let c = 1 + if rng.chance(1, 3) { rng.below(4) } else { 0 }; for _ in 0..c { dup.push(p); } }
    let s = match build(&bits, Some(&dup)) { Ok(s) => s, Err(e) => { ctx.violation("iter.construct", e); return 0; } };
    let ones = pos.len();
    let mut starts: Vec<usize> = vec![0, 1, ones / 2, ones.saturating_sub(1), ones, ones + 1, n.saturating_sub(1), n, n + 1];
    for _ in 0..4 { starts.push(rng.below(n + 2)); }
    for &p in pos.iter().take(3) { starts.push(p); starts.push(p + 1); }
    starts.sort_unstable(); starts.dedup();
    let suite = suite(&s, &starts);
    let what = || format!("len={} ones={} first positions {:?}", n, ones, &pos[..std::cmp::min(pos.len(), 12)]);
    let mut kinds: Vec<u64> = Vec::new();
    for (label, make, reference) in suite.bits.iter() {
        for _ in 0..per {
            let de = make().double_ended();
            let long = rng.chance(1, 5);
            let steps = 1 + rng.below(if long { 300 } else { 30 });
            let calls = ih::random_history(rng, de, steps, reference.len());
            histories += 1;
            kinds.push(hash_str(&format!("{}{:?}", label, &calls[..std::cmp::min(calls.len(), 12)])));
            ih::run_history(ctx, label, make(), reference, &calls, &what);
        }
    }
    for (label, make, reference) in suite.pairs.iter() {
        let reps = if label.contains('(') { 1 } else { per };
        let sig = sig_of(label);
        let what2 = || format!("{} on {}", label, what());
        for _ in 0..reps {
            let de = make().double_ended();
            let long = rng.chance(1, 5);
            let steps = 1 + rng.below(if long { 300 } else { 30 });
            let calls = ih::random_history(rng, de, steps, reference.len());
            histories += 1;
            kinds.push(hash_str(&format!("{}{:?}", sig, &calls[..std::cmp::min(calls.len(), 12)])));
            ih::run_history(ctx, &sig, make(), reference, &calls, &what2);
        }
    }
    for (label, make, reference) in suite.items.iter() {
        for _ in 0..per {
            let de = make().double_ended();
            let steps = 1 + rng.below(40);
            let calls = ih::random_history(rng, de, steps, reference.len());
            histories += 1;
            kinds.push(hash_str(&format!("{}{:?}", label, &calls[..std::cmp::min(calls.len(), 12)])));
            ih::run_history(ctx, label, make(), reference, &calls, &what);
        }
    }
    for h in kinds { ctx.case(h, true); }
    ctx.sample(|| format!("rand: len={} ones={} x all iterator types x {} starting points x random histories of up to 300 calls (next/next_back/nth/nth_back/len/clone)", n, ones, starts.len()));

    histories
}
