// C03: run-length bitvector answers every query exactly and reports maximal runs.
//
// Parts: small (exhaustive small bit patterns, all decompositions), units (run/gap lengths per code-unit class 1..22,
// block counts 1..1000, early-closed blocks), huge (total lengths around 2^63 and up to usize::MAX - 64).

use simple_sds::ops::BitVec;
use simple_sds::rl_vector::{RLVector, RLBuilder};

use crate::drivers::c02::ser;
use crate::gen;
use crate::mk;
use crate::models::{Model, RunModel, SetModel};
use crate::mon::{check_bv, QArgs, QOpts};
use crate::util::{guard, hash64, Ctx, Rng};
use crate::walk;

pub fn run(ctx: &mut Ctx) {
    let part = ctx.part.clone();
    if part.is_empty() || part == "small" { small(ctx); }
    if part.is_empty() || part == "units" { units(ctx); }
    if part.is_empty() || part == "huge" { huge(ctx); }
    if part.is_empty() || part == "fit" { fit(ctx); regular(ctx); }
}

// Perfectly regular vectors: every block holds the same number of runs and covers a power-of-two number of positions,
// so that block boundaries (positions and ranks) fall exactly on the thresholds of the sampled indexes; queries at every
// block boundary -1/0/+1 (all arguments when the vector is small).
fn regular(ctx: &mut Ctx) {
    let opts = QOpts { iter_limit: 3000, ..QOpts::default() };
    // (gap, len): one code unit each when < 8 / <= 8, two units for the wider ones.
    let shapes: [(usize, usize); 8] = [(4, 4), (1, 7), (7, 1), (2, 2), (1, 1), (8, 8), (32, 32), (3, 5)];
    let blocks_list: Vec<usize> = if ctx.quick() { vec![1, 8, 9, 16, 17, 64, 100] } else { vec![1, 2, 7, 8, 9, 10, 16, 17, 31, 32, 33, 64, 65, 100, 256, 1000] };
    let mut index = 0u64;
    for &(gap, len) in shapes.iter() {
        for &blocks in blocks_list.iter() {
            for lead in [0usize, 1] {
                index += 1;
                if !ctx.mine(index) { continue; }
                if !ctx.begin_case() { continue; }
                let mut rng = ctx.rng(0xC3_E000 + index);
                let units_per_run = (if gap < 8 { 1 } else { 2 }) + (if len <= 8 { 1 } else { 2 });
                let runs_per_block = 64 / units_per_run;
                let mut runs: Vec<(usize, usize)> = Vec::new();
                // `lead` = 1: the very first run starts at 0 (its gap is 0), everything else keeps the period.
                let mut pos = if lead == 1 { 0 } else { gap };
                for _ in 0..blocks * runs_per_block { runs.push((pos, len)); pos += len + gap; }
                let n = pos - gap + (index as usize % 3);
                let m = RunModel::new(n, &runs);
                let (block_starts, _, _) = simulate_blocks(&m.runs);
                let mut args = run_args(&m, &block_starts, &mut rng, 120);
                for &p in block_starts.iter().take(400) {
                    for d in 0..2usize { args.idx.push(p.saturating_sub(d)); args.idx.push(p + d); }
                    let r1 = m.rank(p);
                    let r0 = p - r1;
                    for d in 0..2usize { args.ranks.push(r1.saturating_sub(d)); args.ranks.push(r1 + d); args.ranks.push(r0.saturating_sub(d)); args.ranks.push(r0 + d); }
                }
                let args = args.dedup();
                let rv = build(n, &m.runs, Decomp::Maximal, &mut rng);
                check_rl(ctx, "regular", rv, &m, &args, &opts, 40000);
                ctx.case(hash64(&[8, gap as u64, len as u64, blocks as u64, lead as u64]), true);
                ctx.sample(|| format!("regular: {} blocks of {} runs (gap {}, len {}), first run at {}: n={} (block period {} positions, {} set bits)", blocks, runs_per_block, gap, len, if lead == 1 { 0 } else { gap }, n, runs_per_block * (gap + len), runs_per_block * len));
            }
        }
    }
}

fn units_lo(u: usize) -> usize { if u <= 1 { 0 } else { 1usize << (3 * (u - 1)) } }

// The run list of one `fit` case: `fill` units of short codes, the run under test (gap of `gu` units, length of `ru`
// units), two or three short runs; None when the combination does not fit into the length domain.
pub fn fit_runs(fill: usize, gu: usize, ru: usize, rng: &mut Rng) -> Option<(Vec<(usize, usize)>, usize)> {
    if fill == 1 || gu + ru > 43 || (gu == 22 && ru == 22) { return None; }
    let mut runs: Vec<(usize, usize)> = Vec::new();
    let mut pos = 0usize;
    let mut left = fill;
    // `fill` units of one- and two-unit codes.
    if left % 2 == 1 { let gap = 8 + rng.below(56); let len = 1 + rng.below(8); runs.push((pos + gap, len)); pos += gap + len; left -= 3; }
    while left > 0 { let gap = if runs.is_empty() && rng.chance(1, 2) { 0 } else { 1 + rng.below(7) }; let len = 1 + rng.below(8); runs.push((pos + gap, len)); pos += gap + len; left -= 2; }
    // The run under test: smallest values of its classes when they are large (so that the total stays in range).
    let gap = if gu >= 19 { units_lo(gu) } else { std::cmp::max(1, gen::value_with_units(rng, gu)) };
    let gap = if runs.is_empty() && gu == 1 && rng.chance(1, 2) { 0 } else { std::cmp::max(gap, if gu == 1 { 1 } else { units_lo(gu) }) };
    let lenm1 = if ru >= 19 { units_lo(ru) } else { gen::value_with_units(rng, ru) };
    let start = pos.checked_add(gap)?;
    let end = start.checked_add(lenm1).and_then(|x| x.checked_add(1))?;
    if end > MAX_REQUIRED_LEN - (1 << 20) { return None; }
    runs.push((start, lenm1 + 1));
    pos = end;
    for _ in 0..(2 + rng.below(2)) { let gap = 1 + rng.below(60); let len = 1 + rng.below(60); runs.push((pos + gap, len)); pos += gap + len; }
    let n = pos + rng.below(3);
    Some((runs, n))
}

// Every way a run can meet the end of a 64-unit block: the block already holds `fill` code units, the next run needs
// `gu` units for its gap and `ru` units for its length (1..=22 each: all code lengths), and two or three short runs follow.
// The decision "does it still fit" is made once per run, so every (fill, gu + ru) pair is a case of its own.
fn fit(ctx: &mut Ctx) {
    let opts = QOpts { iter_limit: 3000, ..QOpts::default() };
    let classes: Vec<usize> = if ctx.quick() { vec![1, 2, 3, 8, 11, 20, 21, 22] } else { (1..=22).collect() };
    let mut index = 0u64;
    for fill in 0..64usize {
        if fill == 1 { continue; }
        for &gu in classes.iter() {
            for &ru in classes.iter() {
                index += 1;
                if !ctx.mine(index) { continue; }
                if gu + ru > 43 || (gu == 22 && ru == 22) { continue; }
                if !ctx.begin_case() { continue; }
                let mut rng = ctx.rng(0xC3_F000 + index);
                let (runs, n) = match fit_runs(fill, gu, ru, &mut rng) { Some(x) => x, None => continue };
                let m = RunModel::new(n, &runs);
                let (block_starts, _, _) = simulate_blocks(&m.runs);
                let args = run_args(&m, &block_starts, &mut rng, 60);
                let d = [Decomp::Maximal, Decomp::Split, Decomp::SplitWithSetLen][(fill + gu + ru) % 3];
                let rv = build(n, &m.runs, d, &mut rng);
                check_rl(ctx, &format!("{:?}", d), rv, &m, &args, &opts, 4000);
                ctx.count(&format!("fit.units_needed.{}", gu + ru), 1);
                ctx.case(hash64(&[7, fill as u64, gu as u64, ru as u64]), true);
                ctx.sample(|| format!("fit: block holds {} units, next run needs {} + {} units, {} runs in all, n={}", fill, gu, ru, m.runs.len(), n));
            }
        }
    }
}

// The library documents "n + 63 > usize::MAX" style slack; lengths up to this are required to work.
pub const MAX_REQUIRED_LEN: usize = usize::MAX - 64;

#[derive(Clone, Copy, Debug, PartialEq, Eq)]
pub enum Decomp { Maximal, Split, Bits, SplitWithSetLen }

// Builds the vector from `runs` (maximal) according to a decomposition of the same run list.
pub fn build(n: usize, runs: &[(usize, usize)], d: Decomp, rng: &mut Rng) -> Result<RLVector, String> {
    match d {
        Decomp::Maximal => mk::rl_runs(n, runs),
        Decomp::Split => mk::rl_runs_split(n, runs, rng),
        Decomp::Bits => {
            guard(|| {
                let mut b = RLBuilder::new();
                for &(s, l) in runs { for i in 0..l { b.try_set(s + i, 1)?; } }
                b.set_len(n);
                Ok(RLVector::from(b))
            }).and_then(|r| r)
        },
        Decomp::SplitWithSetLen => {
            // set_len interleaved: before a run, extend the length up to (at most) the start of that run.
            // The runs are also split into adjacent pieces, so that a set_len that changes nothing (any value up to the
            // current length) can fall between two pieces of the same run.
            let mut pieces: Vec<(usize, usize)> = Vec::new();
            for &(s, l) in runs {
                let (mut start, mut left) = (s, l);
                while left > 0 {
                    let take = if left == 1 || rng.chance(1, 2) { left } else { 1 + rng.below(left) };
                    pieces.push((start, take));
                    start += take;
                    left -= take;
                }
            }
            let mut choices: Vec<(usize, usize, Option<usize>)> = Vec::new();
            let mut end = 0usize;
            for &(s, l) in pieces.iter() {
                let pre = if s > end && rng.chance(1, 2) { Some(end + 1 + rng.below(s - end)) } else if rng.chance(1, 3) { Some(if rng.chance(1, 2) { end } else { rng.below(end + 1) }) } else { None };
                choices.push((s, l, pre));
                end = s + l;
            }
            // Calls that must change nothing are sprinkled in between: empty runs anywhere at or past the tail, and calls
            // the builder has to refuse (a run that would end past usize::MAX, a run that starts before the tail).
            let noise: Vec<(u8, usize, usize)> = choices.iter().map(|_| (rng.below(8) as u8, rng.below(2000), rng.below(1 << 20))).collect();
            guard(|| {
                let mut b = RLBuilder::new();
                for (k, &(s, l, pre)) in choices.iter().enumerate() {
                    if let Some(p) = pre { b.set_len(p); }
                    let tail = b.len();
                    match noise[k].0 {
                        0 => { let _ = b.try_set(tail.saturating_add(1 + noise[k].1), 0); },
                        1 => { let _ = b.try_set(tail, 0); },
                        2 => { let start = tail.saturating_add(1 + noise[k].1); let _ = b.try_set(start, usize::MAX - start + 1 + (noise[k].2 % std::cmp::max(1, start))); },
                        3 => { if tail > 0 { let _ = b.try_set(noise[k].1 % tail, 1 + noise[k].2 % 5); } },
                        _ => {},
                    }
                    b.try_set(s, l)?;
                }
                b.set_len(n);
                Ok(RLVector::from(b))
            }).and_then(|r| r)
        },
    }
}

// Checks run_iter: exactly the maximal runs, with offset()/rank()/rank_zero() after each item.
pub fn check_run_iter(ctx: &mut Ctx, rv: &RLVector, m: &RunModel, limit: usize) {
    let want: Vec<(usize, usize, usize, usize, usize)> = m.runs.iter().take(limit).enumerate()
        .map(|(i, &(s, l))| (s, l, s + l, m.cum[i] + l, s + l - (m.cum[i] + l))).collect();
    let got = guard(|| {
        let mut it = rv.run_iter();
        let mut out = Vec::new();
        for _ in 0..limit {
            match it.next() {
                Some((s, l)) => out.push((s, l, it.offset(), it.rank(), it.rank_zero())),
                None => break,
            }
        }
        let mut after = 0;
        if out.len() < limit {
            for _ in 0..3 { if it.next().is_some() { after += 1; } }
        }
        (out, after)
    });
    ctx.expect_eq("rl.run_iter", || format!("run_iter() (start, len, offset, rank, rank_zero) on {}", m.describe()), &got, &(want, 0));
}

fn run_args(m: &RunModel, block_starts: &[usize], rng: &mut Rng, sample: usize) -> QArgs {
    if m.n <= (if cfg!(miri) { 40 } else { 3000 }) {
        let mut a = QArgs::all(m.n, m.count_ones(), m.count_zeros(), 3);
        a.idx.extend(QArgs::extremes());
        a.ranks.extend(QArgs::extremes());
        return a.dedup();
    }
    let sample = if cfg!(miri) { 5 } else { sample };
    let mut around: Vec<usize> = Vec::new();
    let step = std::cmp::max(1, m.runs.len() / sample);
    let mut i = 0;
    while i < m.runs.len() {
        let (s, l) = m.runs[i];
        around.push(s);
        around.push(s + (l - 1));
        i += if !cfg!(miri) && (i < 40 || i + 40 > m.runs.len()) { 1 } else { step };
    }
    around.extend_from_slice(if cfg!(miri) { &block_starts[..std::cmp::min(3, block_starts.len())] } else { block_starts });
    let mut a = QArgs::around(m, &around, true);
    // Ranks at run boundaries (ones) and gap boundaries (zeros).
    let mut i = 0;
    while i < m.runs.len() {
        let (s, l) = m.runs[i];
        let r = m.cum[i];
        let z = s - r;
        for d in 0..2usize {
            a.ranks.push(r.saturating_sub(d)); a.ranks.push(r.saturating_add(d));
            a.ranks.push((r + (l - 1)).saturating_sub(d)); a.ranks.push((r + (l - 1)).saturating_add(d));
            a.ranks.push(z.saturating_sub(d)); a.ranks.push(z.saturating_add(d));
        }
        i += if !cfg!(miri) && (i < 40 || i + 40 > m.runs.len()) { 1 } else { step };
    }
    for _ in 0..(if cfg!(miri) { 3 } else { 40 }) {
        a.idx.push(rng.range(0, m.n));
        a.ranks.push(rng.range(0, m.count_ones()));
        a.ranks.push(rng.range(0, m.count_zeros()));
    }
    a.dedup()
}

// Independent simulation of the documented block packing (whole runs per 64-unit block): positions where blocks start.
fn simulate_blocks(runs: &[(usize, usize)]) -> (Vec<usize>, usize, usize) {
    let mut starts: Vec<usize> = Vec::new();
    let mut used = 64usize; // force a new block for the first run
    let mut tail = 0usize;
    let mut early = 0usize;
    let mut exact = 0usize;
    for &(s, l) in runs {
        let need = gen::code_units(s - tail) + gen::code_units(l - 1);
        if used + need > 64 {
            if !starts.is_empty() { if used < 64 { early += 1; } else { exact += 1; } }
            starts.push(tail);
            used = 0;
        }
        used += need;
        tail = s + l;
    }
    (starts, early, exact)
}

fn check_rl(ctx: &mut Ctx, route: &str, rv: Result<RLVector, String>, m: &RunModel, args: &QArgs, opts: &QOpts, run_limit: usize) -> Option<(usize, usize)> {
    match rv {
        Ok(rv) => {
            check_bv("rl", &rv, m, args, opts, ctx);
            check_run_iter(ctx, &rv, m, run_limit);
            match walk::rl_params(&ser(&rv)) {
                Ok((n, ones, slen, _swidth, dlen)) => {
                    ctx.checks += 1;
                    if n != m.n || ones != m.total {
                        ctx.violation("rl.serialized_header", format!("serialized (len, ones) = ({}, {}) via {} on {}", n, ones, route, m.describe()));
                    }
                    Some((slen / 2, dlen))
                },
                Err(e) => { ctx.inconclusive(format!("byte walker failed on a run-length vector: {}", e)); None },
            }
        },
        Err(e) => {
            ctx.violation("rl.construct", format!("construction via {} failed ({}) on {}", route, e, m.describe()));
            None
        },
    }
}

fn small(ctx: &mut Ctx) {
    let max_n = ctx.size(11, 14);
    let opts = QOpts::default();
    let mut index = 0u64;
    for n in 0..=max_n {
        for code in 0..(1u64 << n) {
            index += 1;
            if !ctx.mine(index) { continue; }
            if !ctx.begin_case() { continue; }
            let bits = gen::pattern(n, code);
            let sm = SetModel::from_bits(&bits);
            let m = RunModel::new(n, &sm.runs());
            let mut rng = ctx.rng(index);
            let args = run_args(&m, &[], &mut rng, 100);
            for d in [Decomp::Maximal, Decomp::Split, Decomp::Bits, Decomp::SplitWithSetLen] {
                let rv = build(n, &m.runs, d, &mut rng);
                check_rl(ctx, &format!("{:?}", d), rv, &m, &args, &opts, 1 << 20);
            }
            // Without a final set_len when there are no trailing zeros.
            if n > 0 && bits[n - 1] {
                let rv = guard(|| { let mut b = RLBuilder::new(); for &(s, l) in m.runs.iter() { b.try_set(s, l)?; } Ok(RLVector::from(b)) }).and_then(|r: Result<RLVector, String>| r);
                check_rl(ctx, "no_set_len", rv, &m, &args, &opts, 1 << 20);
            }
            ctx.case(hash64(&[1, n as u64, code]), n <= 1 || (m.total > 0 && m.total < n));
            ctx.sample(|| format!("small: bits={} runs={:?} x decompositions [Maximal, Split, Bits, SplitWithSetLen]", crate::util::fmt_bits(&bits, 64), m.runs));
        }
    }
}

// Generates runs with code-unit classes steered by `profile`.
pub fn gen_runs(rng: &mut Rng, target_runs: usize, profile: usize, limit: usize, first_at_zero: bool) -> Vec<(usize, usize)> {
    let mut runs: Vec<(usize, usize)> = Vec::new();
    let mut pos = 0usize;
    for i in 0..target_runs {
        let remaining = limit - pos;
        if remaining < 16 { break; }
        let class = |rng: &mut Rng| -> usize {
            match profile {
                0 => 1,                                              // all one unit
                1 => 1 + rng.below(3),                               // 1..3 units
                2 => if rng.chance(1, 12) { 4 + rng.below(8) } else { 1 + rng.below(2) },
                3 => 1 + rng.below(22),                              // anything
                4 => if rng.chance(1, 5) { 12 + rng.below(11) } else { 1 + rng.below(4) },
                _ => if i % 9 == 8 { 2 + rng.below(20) } else { 1 }, // small runs, then one that does not fit
            }
        };
        let cu = class(rng);
        let mut gap = gen::value_with_units(rng, cu);
        if i > 0 || !first_at_zero { gap = std::cmp::max(gap, 1); }
        if i == 0 && first_at_zero { gap = 0; }
        let cu = class(rng);
        let mut lenm1 = gen::value_with_units(rng, cu);
        // Keep inside the budget: leave room for the remaining runs.
        let room = remaining / 2;
        if gap > room / 2 { gap = std::cmp::max(if i == 0 && first_at_zero { 0 } else { 1 }, gap % std::cmp::max(1, room / 2)); }
        if lenm1 > room / 2 { lenm1 %= std::cmp::max(1, room / 2); }
        let start = pos + gap;
        runs.push((start, lenm1 + 1));
        pos = start + lenm1 + 1;
    }
    runs
}

fn units(ctx: &mut Ctx) {
    let opts = QOpts { iter_limit: 3000, ..QOpts::default() };
    let run_counts: Vec<usize> = if ctx.quick() { vec![0, 1, 2, 20, 200, 260, 300, 600, 2200] } else { vec![0, 1, 2, 20, 200, 230, 260, 300, 600, 2200, 9000, 34000] };
    let reps = ctx.size(6, 30);
    let mut index = 0u64;
    for &rc in run_counts.iter() {
        for profile in 0..6usize {
            for rep in 0..reps {
                index += 1;
                if !ctx.mine(index) { continue; }
                if !ctx.begin_case() { continue; }
                let mut rng = ctx.rng(0xC3_0000 + index);
                let first_at_zero = rep % 2 == 0;
                let limit = match rep % 3 { 0 => 1usize << 40, 1 => 1usize << 62, _ => MAX_REQUIRED_LEN / 2 };
                let runs = gen_runs(&mut rng, rc, profile, limit, first_at_zero);
                let end = runs.last().map(|r| r.0 + r.1).unwrap_or(0);
                let n = match rep % 4 { 0 => end, 1 => end + 1, 2 => end + rng.below(1 << 20), _ => { let u = 1 + rng.below(14); end + gen::value_with_units(&mut rng, u) % (limit / 2) } };
                let m = RunModel::new(n, &runs);
                let (block_starts, early, exact) = simulate_blocks(&m.runs);
                let args = run_args(&m, &block_starts, &mut rng, 150);
                let d = if m.total <= 3000 { [Decomp::Maximal, Decomp::Split, Decomp::Bits, Decomp::SplitWithSetLen][rep % 4] } else { [Decomp::Maximal, Decomp::Split, Decomp::SplitWithSetLen][rep % 3] };
                let snap = mk::probe_snapshot();
                let rv = build(n, &m.runs, d, &mut rng);
                let seen = check_rl(ctx, &format!("{:?}", d), rv, &m, &args, &opts, 40000);
                mk::probe_delta(ctx, "units", &snap);
                if let Some((blocks, _)) = seen {
                    ctx.count(&format!("blocks_class.{}", match blocks { 0 => "0", 1 => "1", 2..=7 => "2-7", 8 => "8", 9 => "9", 10..=16 => "10-16", 17..=63 => "17-63", 64..=999 => "64-999", _ => "1000+" }), 1);
                    ctx.checks += 1;
                    if blocks != block_starts.len() {
                        // Not part of the statement (C07 checks the format); recorded as information only.
                        ctx.count("units.block_count_differs_from_simulation", 1);
                    }
                }
                ctx.count("units.sim_blocks_closed_early", early as u64);
                ctx.count("units.sim_blocks_exactly_full", exact as u64);
                ctx.case(hash64(&[2, rc as u64, profile as u64, rep as u64, m.runs.len() as u64, n as u64, hash64(&m.runs.iter().take(64).map(|r| (r.0 ^ r.1.rotate_left(17)) as u64).collect::<Vec<u64>>())]), true);
                ctx.sample(|| format!("units: runs={} profile={} n={} ones={} sim_blocks={} decomposition={:?} first runs={:?}", m.runs.len(), profile, n, m.total, block_starts.len(), d, &m.runs[..std::cmp::min(4, m.runs.len())]));
            }
        }
    }
}

fn huge(ctx: &mut Ctx) {
    let opts = QOpts { iter_limit: 3000, ..QOpts::default() };
    let totals: Vec<usize> = vec![(1usize << 63) - 1, 1usize << 63, (1usize << 63) + 1, (1usize << 63) + (1usize << 61), usize::MAX - (1 << 20), MAX_REQUIRED_LEN - 1, MAX_REQUIRED_LEN];
    let reps = ctx.size(4, 24);
    let mut index = 0u64;
    for (ti, &n) in totals.iter().enumerate() {
        for shape in 0..8usize {
            for rep in 0..reps {
                index += 1;
                if !ctx.mine(index) { continue; }
                if !ctx.begin_case() { continue; }
                let mut rng = ctx.rng(0xC3_8000 + index);
                let runs: Vec<(usize, usize)> = match shape {
                    0 => Vec::new(),                                               // all zeros
                    1 => vec![(0, n)],                                             // all ones
                    2 => vec![(0, 1 + rng.below(100)), (n - 1 - rng.below(50), 1)], // both ends
                    3 => vec![(rng.below(1000), n / 2)],                           // one giant run
                    4 => {                                                          // giant run, giant gap, many short runs (>= 9 blocks)
                        let first = (1usize << 62) + rng.below(1 << 30);
                        let mut v = vec![(if rep % 2 == 0 { 0 } else { 1 + rng.below(9) }, first)];
                        let mut pos = v[0].0 + first + (1usize << 60) + rng.below(1 << 20);
                        let l2 = (1usize << 59) + rng.below(100);
                        v.push((pos, l2));
                        pos += l2;
                        for _ in 0..(if cfg!(miri) { 40 } else { 240 + rng.below(200) }) {
                            let gap = 1 + rng.below(6);
                            let l = 1 + rng.below(6);
                            v.push((pos + gap, l));
                            pos += gap + l;
                        }
                        v
                    },
                    5 => {                                                          // many mid-size runs up to the end
                        let mut v = Vec::new();
                        let mut pos = rng.below(3);
                        let k = 10 + rng.below(if cfg!(miri) { 30 } else { 600 });
                        let unit = n / (2 * k + 2);
                        for _ in 0..k {
                            let gap = 1 + rng.range(0, unit - 1);
                            let l = 1 + rng.range(0, unit - 1);
                            v.push((pos + gap, l));
                            pos += gap + l;
                        }
                        v
                    },
                    6 => { let k = 30 + rng.below(if cfg!(miri) { 20 } else { 400 }); gen_runs(&mut rng, k, 3 + rep % 2, n, rep % 2 == 0) },
                    _ => {
                        // Block 0 holds only a first run that starts at 0 (the next run does not fit), then >= 9 blocks:
                        // two blocks have no unset bits before them.
                        let first = (1usize << 63) + rng.below(1 << 20);
                        let gap = (1usize << 60) + rng.below(1 << 20);
                        let l2 = (1usize << 60) + rng.below(1 << 20);
                        if n < first + gap + l2 + 100_000 { Vec::new() } else {
                            let mut v = vec![(0, first), (first + gap, l2)];
                            let mut pos = first + gap + l2;
                            for _ in 0..(if cfg!(miri) { 300 } else { 300 + rng.below(300) }) {
                                let g = 1 + rng.below(6);
                                let l = 1 + rng.below(6);
                                v.push((pos + g, l));
                                pos += g + l;
                            }
                            v
                        }
                    },
                };
                let runs: Vec<(usize, usize)> = runs.into_iter().filter(|r| r.1 > 0 && r.0 + r.1 <= n).collect();
                let m = RunModel::new(n, &runs);
                let (block_starts, _, _) = simulate_blocks(&m.runs);
                let args = run_args(&m, &block_starts, &mut rng, 150);
                let d = [Decomp::Maximal, Decomp::Split, Decomp::SplitWithSetLen][rep % 3];
                let rv = build(n, &m.runs, d, &mut rng);
                check_rl(ctx, &format!("{:?}", d), rv, &m, &args, &opts, 40000);
                ctx.case(hash64(&[3, ti as u64, shape as u64, rep as u64, m.runs.len() as u64, hash64(&m.runs.iter().take(64).map(|r| (r.0 ^ r.1.rotate_left(17)) as u64).collect::<Vec<u64>>())]), true);
                ctx.sample(|| format!("huge: n={} shape={} runs={} ones={} decomposition={:?}", n, shape, m.runs.len(), m.total, d));
            }
        }
    }
    // Lengths in the last 64 values: information only (outside the documented domain).
    if ctx.mine(0) {
        for &n in &[usize::MAX - 63, usize::MAX - 1, usize::MAX] {
            let r = mk::rl_runs(n, &[(5, 10)]);
            ctx.count(if r.is_ok() { "huge.info_len_in_last_64_values_ok" } else { "huge.info_len_in_last_64_values_fails" }, 1);
        }
    }
}
