// C18: memory maps are valid while alive, fully released on drop, and fail loudly.
//
// Oracles: /proc/self/maps (lines naming the unique temporary file) before new / while alive / after drop; the file's
// bytes read back with fs::read; the pointer printed by MemoryMap's derived Debug; a child process with a small
// RLIMIT_AS for "refused by the OS".

use simple_sds::serialize::{MappingMode, MemoryMap};

use std::collections::BTreeMap;

use crate::util::{guard, hash64, Ctx, Rng};

pub fn run(ctx: &mut Ctx) {
    let part = ctx.part.clone();
    if part.is_empty() || part == "sizes" { sizes(ctx); }
    if part.is_empty() || part == "cycles" { cycles(ctx); }
    if part.is_empty() || part == "refused" { refused(ctx); sealed(ctx); }
    if part.is_empty() || part == "cycles" { unwinding(ctx); }
}

// Total number of bytes of address space mapped from `file`, and the number of mapping lines.
fn mapped_bytes(file: &str) -> (usize, usize) {
    let maps = std::fs::read_to_string("/proc/self/maps").unwrap_or_default();
    let mut bytes = 0usize;
    let mut lines = 0usize;
    for line in maps.lines() {
        if line.ends_with(file) || line.contains(&format!("{} ", file)) {
            let range = line.split_whitespace().next().unwrap_or("");
            let mut it = range.split('-');
            let a = usize::from_str_radix(it.next().unwrap_or("0"), 16).unwrap_or(0);
            let b = usize::from_str_radix(it.next().unwrap_or("0"), 16).unwrap_or(0);
            bytes += b - a;
            lines += 1;
        }
    }
    (bytes, lines)
}

fn file_content(size: usize, salt: u64) -> Vec<u8> {
    let mut v = Vec::with_capacity(size);
    let mut x = salt | 1;
    for _ in 0..size { x = x.wrapping_mul(0x5851_F42D_4C95_7F2D).wrapping_add(0x1405_7B7E_F767_814F); v.push((x >> 56) as u8); }
    v
}

fn debug_ptr_invalid(map: &MemoryMap) -> Option<String> {
    let d = format!("{:?}", map);
    // The derived Debug prints `ptr: 0x...`.
    if let Some(p) = d.find("ptr: 0x") {
        let hex: String = d[p + 7..].chars().take_while(|c| c.is_ascii_hexdigit()).collect();
        if let Ok(v) = usize::from_str_radix(&hex, 16) {
            if v == usize::MAX || v == 0 || v % 8 != 0 { return Some(format!("ptr = {:#x}", v)); }
        }
    }
    None
}

fn page_round(n: usize) -> usize { (n + 4095) / 4096 * 4096 }

// One map/drop observation. Returns false on a violation.
fn observe(ctx: &mut Ctx, name: &str, content: &[u8], mode: MappingMode, what: &dyn Fn() -> String) -> bool {
    let size = content.len();
    let before = mapped_bytes(name);
    ctx.checks += 1;
    if before.0 != 0 { ctx.violation("map.before", format!("{} bytes of {} are mapped before MemoryMap::new: {}", before.0, name, what())); return false; }
    let map = match guard(|| MemoryMap::new(name, mode)) {
        Err(p) => { ctx.violation("map.new!panic", format!("{}: {}", what(), p)); return false; },
        Ok(Err(e)) => {
            // An error is acceptable only for an empty file (the OS refuses a zero-length mapping).
            if size != 0 { ctx.violation("map.new.err", format!("MemoryMap::new failed ({}) on {}", e, what())); return false; }
            ctx.count("sizes.empty_file_refused", 1);
            return true;
        },
        Ok(Ok(m)) => m,
    };
    let mut ok = true;
    if let Some(bad) = debug_ptr_invalid(&map) {
        ctx.violation("map.new.invalid_pointer", format!("MemoryMap::new returned Ok with an invalid pointer ({}) on {}", bad, what()));
        ok = false;
    }
    if ok {
        ctx.checks += 1;
        let got = guard(|| {
            let slice: &[u64] = map.as_ref();
            let mut same = slice.len() * 8 == size && map.len() * 8 == size && map.is_empty() == (size == 0) && map.mode() == mode;
            for (i, w) in slice.iter().enumerate() {
                let mut x = [0u8; 8];
                x.copy_from_slice(&content[i * 8..i * 8 + 8]);
                if *w != u64::from_le_bytes(x) { same = false; break; }
            }
            same
        });
        if got != Ok(true) { ctx.violation("map.content", format!("mapped slice differs from the file ({:?}) on {}", got, what())); ok = false; }
        let alive = mapped_bytes(name);
        ctx.checks += 1;
        if size > 0 && alive.0 < page_round(size) { ctx.violation("map.alive", format!("only {} bytes mapped while alive (file has {}) on {}", alive.0, size, what())); ok = false; }
    }
    drop(map);
    let after = mapped_bytes(name);
    ctx.checks += 1;
    if after.0 != 0 {
        ctx.violation("map.drop.still_mapped", format!("{} bytes in {} mapping(s) of the file remain in /proc/self/maps after drop (file size {}) on {}", after.0, after.1, size, what()));
        // Clean up so that later observations start from a clean slate.
        ok = false;
    }
    ok
}

fn sizes(ctx: &mut Ctx) {
    // (sizes around the huge-page size matter to implementations that round or advise large mappings)
    let mut list: Vec<usize> = vec![0, 8, 16, 24, 4088, 4096, 4104, 8192, 12288, 65536, 65544, (1 << 20) + 8, (1 << 21) - 8, 1 << 21, (1 << 21) + 8, (1 << 21) + 3 * 4096, 5 << 20];
    if !ctx.quick() { list.extend_from_slice(&[32768, 4096 * 7, (1 << 22), (1 << 24) + 4096]); }
    let mut index = 0u64;
    for &size in list.iter() {
        for mode in [MappingMode::ReadOnly, MappingMode::Mutable] {
            index += 1;
            if !ctx.mine(index) { continue; }
            if !ctx.begin_case() { continue; }
            let name = format!("{}/vmon-c18-{}-{}-{}", ctx.tmpdir, std::process::id(), ctx.shard, index);
            let content = file_content(size, index);
            std::fs::write(&name, &content).unwrap();
            let what = || format!("a {}-byte file mapped {:?}", size, mode);
            observe(ctx, &name, &content, mode, &what);
            // Mutable maps: changes made through the map are in the file afterwards.
            if mode == MappingMode::Mutable && size > 0 {
                ctx.checks += 1;
                let r = guard(|| -> Result<bool, String> {
                    let mut map = MemoryMap::new(&name, MappingMode::Mutable).map_err(|e| e.to_string())?;
                    let words = map.len();
                    unsafe {
                        let s = map.as_mut_slice();
                        // The mutable slice must cover exactly the file: same extent as the immutable view and the file size.
                        if s.len() != words || words * 8 != size { return Err(format!("as_mut_slice() has {} elements, len() = {}, file has {} bytes", s.len(), words, size)); }
                        for i in 0..words { s[i] = (i as u64).wrapping_mul(0xA24B_AED4_963E_E407) ^ 0x5555; }
                    }
                    drop(map);
                    let back = std::fs::read(&name).map_err(|e| e.to_string())?;
                    Ok(back.len() == size && (0..words).all(|i| { let mut x = [0u8; 8]; x.copy_from_slice(&back[i * 8..i * 8 + 8]); u64::from_le_bytes(x) == (i as u64).wrapping_mul(0xA24B_AED4_963E_E407) ^ 0x5555 }))
                });
                if r != Ok(Ok(true)) { ctx.violation("map.mutable.lost_write", format!("writes through a mutable map are not in the file after drop ({:?}) on {}", r, what())); }
            }
            // The same with a file that carries no write permission bits: a process that may open it for writing anyway
            // (root, CAP_DAC_OVERRIDE) gets a mutable map, and what it writes must still reach the file; a refusal is fine.
            if mode == MappingMode::Mutable && size > 0 {
                use std::os::unix::fs::PermissionsExt;
                let _ = std::fs::set_permissions(&name, std::fs::Permissions::from_mode(0o444));
                ctx.checks += 1;
                let r = guard(|| -> Result<Option<bool>, String> {
                    let mut map = match MemoryMap::new(&name, MappingMode::Mutable) { Ok(m) => m, Err(_) => return Ok(None) };
                    let words = map.len();
                    unsafe { let s = map.as_mut_slice(); for i in 0..std::cmp::min(words, s.len()) { s[i] = (i as u64).wrapping_mul(0x9E37_79B9_7F4A_7C15) ^ 0x3333; } }
                    drop(map);
                    let back = std::fs::read(&name).map_err(|e| e.to_string())?;
                    Ok(Some(back.len() == size && (0..words).all(|i| { let mut x = [0u8; 8]; x.copy_from_slice(&back[i * 8..i * 8 + 8]); u64::from_le_bytes(x) == (i as u64).wrapping_mul(0x9E37_79B9_7F4A_7C15) ^ 0x3333 })))
                });
                match r {
                    Ok(Ok(Some(true))) => ctx.count("sizes.readonly_bits.mutable_map_granted", 1),
                    Ok(Ok(None)) => ctx.count("sizes.readonly_bits.mutable_map_refused", 1),
                    other => ctx.violation("map.mutable.lost_write.readonly_bits", format!("writes through a mutable map of a file with mode 0444 are not in the file after drop ({:?}) on {}", other, what())),
                }
                let _ = std::fs::set_permissions(&name, std::fs::Permissions::from_mode(0o644));
                if mapped_bytes(&name).0 != 0 { ctx.violation("map.drop.still_mapped", format!("a mapping of the mode-0444 file remains after drop on {}", what())); }
            }
            // The same file reached through symbolic links whose own length (the link text) differs from the file's in
            // every way: the map is about the file, whatever the path looks like.
            if size > 0 && size <= 65544 {
                for extra in [0usize, 3, 40] {
                    let link = format!("{}-l{}", name, extra);
                    let _ = std::fs::remove_file(&link);
                    // The link text: the same file spelled with `extra` redundant "./" components.
                    let (dir, base) = name.rsplit_once('/').unwrap_or((".", name.as_str()));
                    let target = format!("{}/{}{}", dir, "./".repeat(extra), base);
                    if std::os::unix::fs::symlink(&target, &link).is_ok() {
                        let what_l = || format!("a {}-byte file mapped {:?} through a symbolic link whose text has {} bytes", size, mode, target.len());
                        // `observe` looks the mapping up in /proc/self/maps under the resolved name.
                        let before = mapped_bytes(&name).0;
                        let r = guard(|| MemoryMap::new(&link, mode).map(|m| { let s: &[u64] = m.as_ref(); let same = s.len() * 8 == size && s.iter().enumerate().all(|(i, w)| { let mut x = [0u8; 8]; x.copy_from_slice(&content[i * 8..i * 8 + 8]); *w == u64::from_le_bytes(x) }); (m.len(), same) }).map_err(|e| e.to_string()));
                        ctx.checks += 1;
                        if mode == MappingMode::ReadOnly && r != Ok(Ok((size / 8, true))) { ctx.violation("map.symlink", format!("(len, content equal) = {:?} on {}", r, what_l())); }
                        if mode == MappingMode::Mutable { if let Ok(Ok((l, _))) = &r { if *l != size / 8 { ctx.violation("map.symlink", format!("len {} on {}", l, what_l())); } } }
                        if before == 0 && mapped_bytes(&name).0 != 0 { ctx.violation("map.drop.still_mapped", format!("a mapping remains after drop on {}", what_l())); }
                        let _ = std::fs::remove_file(&link);
                    }
                }
            }
            let _ = std::fs::remove_file(&name);
            ctx.case(hash64(&[1, size as u64, mode as u64]), true);
            ctx.sample(|| format!("sizes: {}-byte file, {:?}: /proc/self/maps before/alive/after drop, content, Debug pointer{}", size, mode, if mode == MappingMode::Mutable { ", write-through" } else { "" }));
        }
    }
    // A large sparse file.
    if ctx.mine(0) && ctx.begin_case() {
        let name = format!("{}/vmon-c18-{}-{}-sparse", ctx.tmpdir, std::process::id(), ctx.shard);
        let size: usize = 64 << 20;
        let f = std::fs::File::create(&name).unwrap();
        f.set_len(size as u64).unwrap();
        drop(f);
        let before = mapped_bytes(&name).0;
        let r = guard(|| -> Result<(usize, usize, u64), String> {
            let map = MemoryMap::new(&name, MappingMode::ReadOnly).map_err(|e| e.to_string())?;
            let alive = mapped_bytes(&name).0;
            let s: &[u64] = map.as_ref();
            let probe = s[0] | s[s.len() / 2] | s[s.len() - 1];
            Ok((map.len(), alive, probe))
        });
        let after = mapped_bytes(&name).0;
        ctx.checks += 1;
        if r != Ok(Ok((size / 8, size, 0))) || before != 0 { ctx.violation("map.sparse", format!("64 MiB sparse file: (len, bytes mapped while alive, content) = {:?}", r)); }
        if after != 0 { ctx.violation("map.drop.still_mapped", format!("{} bytes of a 64 MiB sparse file remain mapped after drop", after)); }
        let _ = std::fs::remove_file(&name);
        ctx.case(hash64(&[2, size as u64]), true);
    }
    // Inputs that must be refused: sizes that are not a multiple of 8, a missing file.
    for &size in &[1usize, 2, 3, 4, 5, 6, 7, 9, 15, 4097, 4100, 65537] {
        index += 1;
        if !ctx.mine(index) { continue; }
        if !ctx.begin_case() { continue; }
        let name = format!("{}/vmon-c18-{}-{}-bad{}", ctx.tmpdir, std::process::id(), ctx.shard, size);
        std::fs::write(&name, file_content(size, 3)).unwrap();
        for mode in [MappingMode::ReadOnly, MappingMode::Mutable] {
            ctx.expect_eq("map.new.accepts_bad_size", || format!("MemoryMap::new on a {}-byte file ({:?}) is refused", size, mode), &guard(|| MemoryMap::new(&name, mode).is_err()), &true);
        }
        ctx.checks += 1;
        if mapped_bytes(&name).0 != 0 { ctx.violation("map.drop.still_mapped", format!("a refused {}-byte file left a mapping behind", size)); }
        let _ = std::fs::remove_file(&name);
        ctx.case(hash64(&[3, size as u64]), true);
    }
    if ctx.mine(1) && ctx.begin_case() {
        let name = format!("{}/vmon-c18-{}-missing", ctx.tmpdir, std::process::id());
        ctx.expect_eq("map.new.accepts_missing_file", || "MemoryMap::new on a missing file is refused".to_string(), &guard(|| MemoryMap::new(&name, MappingMode::ReadOnly).is_err()), &true);
        ctx.case(hash64(&[4]), true);
    }
    // Things that are not regular files with content: a directory, character devices, a file whose reported size is 0
    // although it has content. Whatever happens must be an error or a valid map (usable for its whole length) - never a
    // panic, never a map with an invalid pointer.
    if ctx.mine(3) && ctx.begin_case() && !cfg!(miri) {
        for path in [ctx.tmpdir.clone(), "/dev/null".to_string(), "/dev/zero".to_string(), "/proc/self/status".to_string(), "/".to_string(), "/proc/version".to_string(), "/proc/filesystems".to_string(), "/sys/kernel/ostype".to_string()] {
            for mode in [MappingMode::ReadOnly, MappingMode::Mutable] {
                ctx.checks += 1;
                match guard(|| MemoryMap::new(&path, mode).map(|m| { let s: &[u64] = m.as_ref(); (s.len(), s.iter().flat_map(|w| w.to_le_bytes()).collect::<Vec<u8>>(), m.len()) })) {
                    Ok(Err(_)) => ctx.count("odd_paths.refused", 1),
                    Ok(Ok((slice_len, bytes, len))) => {
                        ctx.count("odd_paths.mapped", 1);
                        if slice_len != len { ctx.violation("map.odd_path.len", format!("MemoryMap::new({:?}, {:?}): slice of {} elements, len() = {}", path, mode, slice_len, len)); }
                        // Files whose content does not change between two reads: a granted map is the file's content.
                        if path.starts_with("/proc/version") || path.starts_with("/proc/filesystems") || path.starts_with("/sys/") || path == "/dev/null" {
                            if let Ok(content) = std::fs::read(&path) {
                                if content != bytes { ctx.violation("map.odd_path.content", format!("MemoryMap::new({:?}, {:?}) returned a map of {} bytes; reading the file gives {} bytes", path, mode, bytes.len(), content.len())); }
                            }
                        }
                    },
                    Err(p) => ctx.violation("map.new.odd_path!panic", format!("MemoryMap::new({:?}, {:?}) panicked: {}", path, mode, p)),
                }
            }
        }
        ctx.case(hash64(&[5]), true);
    }
}

fn cycles(ctx: &mut Ctx) {
    let rounds = ctx.size(6, 60);
    for r in 0..rounds {
        if !ctx.begin_case() { continue; }
        let mut rng: Rng = ctx.rng(0xC18_000 + r as u64);
        // Several files, several maps alive at once, dropped in random order, many cycles.
        let nfiles = 1 + rng.below(4);
        let mut files: Vec<(String, Vec<u8>)> = Vec::new();
        for f in 0..nfiles {
            let size = 8 * match rng.below(5) { 0 => 1, 1 => 511, 2 => 512, 3 => 513, _ => 1 + rng.below(30000) };
            let name = format!("{}/vmon-c18c-{}-{}-{}-{}", ctx.tmpdir, std::process::id(), ctx.shard, r, f);
            let content = file_content(size, (r * 10 + f) as u64);
            std::fs::write(&name, &content).unwrap();
            files.push((name, content));
        }
        let cycles = 1 + rng.below(if ctx.quick() { 60 } else { 200 });
        let mut ok = true;
        for c in 0..cycles {
            let mut alive: Vec<(usize, MemoryMap)> = Vec::new();
            let k = 1 + rng.below(5);
            for _ in 0..k {
                let f = rng.below(nfiles);
                let mode = if rng.chance(1, 2) { MappingMode::ReadOnly } else { MappingMode::Mutable };
                match guard(|| MemoryMap::new(&files[f].0, mode)) {
                    Ok(Ok(m)) => alive.push((f, m)),
                    other => { ctx.violation("map.new.err", format!("cycle {}: MemoryMap::new failed: {:?}", c, other.map(|r| r.map(|_| ()).map_err(|e| e.to_string())))); ok = false; },
                }
            }
            // All alive maps show the file content.
            for (f, m) in alive.iter() {
                ctx.checks += 1;
                let s: &[u64] = m.as_ref();
                let content = &files[*f].1;
                let i = rng.below(s.len());
                let mut x = [0u8; 8];
                x.copy_from_slice(&content[i * 8..i * 8 + 8]);
                if s.len() * 8 != content.len() || s[i] != u64::from_le_bytes(x) { ctx.violation("map.content", format!("cycle {}: element {} of a live map differs from the file", c, i)); ok = false; }
            }
            // Drop one at a time (newest first in every other cycle); after each drop the survivors must still be mapped
            // in full (accounted per file in /proc/self/maps before their memory is touched) and show the file content.
            while !alive.is_empty() {
                let i = if c % 2 == 0 { alive.len() - 1 } else { rng.below(alive.len()) };
                alive.remove(i);
                for (f, (name, content)) in files.iter().enumerate() {
                    let expect = alive.iter().filter(|a| a.0 == f).count() * page_round(content.len());
                    let have = mapped_bytes(name).0;
                    ctx.checks += 1;
                    if have != expect {
                        ctx.violation("map.alive.lost_pages", format!("cycle {}: after dropping one map, {} bytes of a {}-byte file are mapped but {} live map(s) need {}", c, have, content.len(), alive.iter().filter(|a| a.0 == f).count(), expect));
                        ok = false;
                    }
                }
                if !ok { break; }
                for (f, m) in alive.iter() {
                    let s: &[u64] = m.as_ref();
                    let content = &files[*f].1;
                    for i in [0usize, s.len() - 1] {
                        let mut x = [0u8; 8];
                        x.copy_from_slice(&content[i * 8..i * 8 + 8]);
                        ctx.checks += 1;
                        if s[i] != u64::from_le_bytes(x) { ctx.violation("map.content", format!("cycle {}: element {} of a surviving map differs from the file", c, i)); ok = false; }
                    }
                }
            }
            if !ok { std::mem::forget(alive); break; }
            for (name, content) in files.iter() {
                ctx.checks += 1;
                let left = mapped_bytes(name);
                if left.0 != 0 {
                    ctx.violation("map.drop.still_mapped", format!("cycle {} of {}: {} bytes in {} mapping(s) of a {}-byte file remain after all maps were dropped", c, cycles, left.0, left.1, content.len()));
                    ok = false;
                }
            }
            if !ok { break; }
        }
        for (name, _) in files.iter() { let _ = std::fs::remove_file(name); }
        ctx.case(hash64(&[5, r as u64, nfiles as u64, cycles as u64]), true);
        ctx.sample(|| format!("cycles: {} files x {} map/drop cycles with 1..5 maps alive at once, /proc/self/maps checked after every cycle", nfiles, cycles));
    }
}

// Child: try to map a large sparse file under a small address-space limit.
pub fn child(kv: &BTreeMap<String, String>) -> ! {
    let file = kv.get("file").cloned().unwrap_or_default();
    let limit: u64 = kv.get("limit").and_then(|x| x.parse().ok()).unwrap_or(256 << 20);
    unsafe {
        let lim = libc::rlimit { rlim_cur: limit as libc::rlim_t, rlim_max: limit as libc::rlim_t };
        if libc::setrlimit(libc::RLIMIT_AS, &lim) != 0 { println!("OUTCOME harness_error"); std::process::exit(3); }
    }
    crate::util::install_panic_hook();
    let r = guard(|| MemoryMap::new(&file, MappingMode::ReadOnly));
    match r {
        Err(p) => println!("OUTCOME panic {}", p),
        Ok(Err(e)) => println!("OUTCOME err {}", e),
        Ok(Ok(m)) => {
            match debug_ptr_invalid(&m) {
                Some(bad) => { println!("OUTCOME ok_invalid {}", bad); std::mem::forget(m); },
                None => println!("OUTCOME ok_valid len={}", m.len()),
            }
        },
    }
    std::process::exit(0);
}

fn refused(ctx: &mut Ctx) {
    if !ctx.mine(0) || !ctx.begin_case() { return; }
    let exe = match std::env::current_exe() { Ok(e) => e, Err(e) => { ctx.inconclusive(format!("current_exe: {}", e)); return; } };
    let name = format!("{}/vmon-c18-{}-{}-huge", ctx.tmpdir, std::process::id(), ctx.shard);
    let f = std::fs::File::create(&name).unwrap();
    f.set_len(4u64 << 30).unwrap();
    drop(f);
    for &limit in &[512u64 << 20, 1u64 << 30, 2u64 << 30] {
        let out = std::process::Command::new(&exe).args(["c18child", &format!("file={}", name), &format!("limit={}", limit)]).output();
        ctx.checks += 1;
        match out {
            Err(e) => ctx.inconclusive(format!("could not spawn the child: {}", e)),
            Ok(o) => {
                let text = String::from_utf8_lossy(&o.stdout).to_string();
                let outcome = text.lines().find(|l| l.starts_with("OUTCOME ")).map(|l| l[8..].to_string()).unwrap_or_else(|| format!("no_outcome(status {:?}) {}", o.status.code(), String::from_utf8_lossy(&o.stderr)));
                ctx.count(&format!("refused.outcome.{}", outcome.split_whitespace().next().unwrap_or("?")), 1);
                if outcome.starts_with("err") { /* refused loudly */ }
                else if outcome.starts_with("ok_invalid") || outcome.starts_with("panic") {
                    ctx.violation("map.new.refused_by_os_accepted", format!("mapping a 4 GiB sparse file under RLIMIT_AS {} MiB: {}", limit >> 20, outcome));
                } else if outcome.starts_with("ok_valid") {
                    ctx.inconclusive(format!("the OS granted a 4 GiB mapping under RLIMIT_AS {} MiB", limit >> 20));
                } else {
                    ctx.inconclusive(format!("child: {}", outcome));
                }
            },
        }
    }
    let _ = std::fs::remove_file(&name);
    ctx.case(hash64(&[6]), true);
    ctx.case(hash64(&[7]), true);
    ctx.sample(|| "refused: child process with RLIMIT_AS 512 MiB / 1 GiB / 2 GiB maps a 4 GiB sparse file: must be an error, never Ok with an invalid pointer".to_string());
}

// Files for which the OS refuses a shared writable mapping although they open read-write: memory files sealed against
// writing, reached through /proc/self/fd. A mutable map must be refused with an error - or, if one is returned, what is
// written through it must be in the file afterwards (a private copy silently loses the writes). Read-only maps of the
// same files must be valid and equal to the content.
#[cfg(not(miri))]
fn sealed(ctx: &mut Ctx) {
    if !ctx.mine(1) || !ctx.begin_case() { return; }
    let variants: [(&str, libc::c_int); 4] = [("none", 0), ("write", libc::F_SEAL_WRITE), ("future_write", 0x0010 /* F_SEAL_FUTURE_WRITE */), ("write+shrink+grow", libc::F_SEAL_WRITE | libc::F_SEAL_SHRINK | libc::F_SEAL_GROW)];
    for (k, &(label, seals)) in variants.iter().enumerate() {
        for &size in &[8usize, 4096, 3 * 4096 + 64] {
            let content = file_content(size, 0x5EA1 + k as u64);
            let fd = unsafe { libc::memfd_create(b"vmon-c18-sealed\0".as_ptr() as *const libc::c_char, libc::MFD_ALLOW_SEALING) };
            if fd < 0 { ctx.inconclusive("memfd_create failed".to_string()); return; }
            let written = unsafe { libc::write(fd, content.as_ptr() as *const libc::c_void, size) };
            if written != size as isize { ctx.inconclusive("short write to a memory file".to_string()); unsafe { libc::close(fd); } continue; }
            if seals != 0 && unsafe { libc::fcntl(fd, libc::F_ADD_SEALS, seals) } != 0 {
                ctx.count("sealed.seal_not_supported", 1);
                unsafe { libc::close(fd); }
                continue;
            }
            let path = format!("/proc/self/fd/{}", fd);
            let read_back = |fd: libc::c_int| -> Vec<u8> { let mut buf = vec![0u8; size]; let n = unsafe { libc::pread(fd, buf.as_mut_ptr() as *mut libc::c_void, size, 0) }; buf.truncate(std::cmp::max(n, 0) as usize); buf };
            // Read-only.
            ctx.checks += 1;
            match guard(|| MemoryMap::new(&path, MappingMode::ReadOnly).map(|m| { let s: &[u64] = m.as_ref(); s.iter().flat_map(|w| w.to_le_bytes()).collect::<Vec<u8>>() })) {
                Ok(Ok(bytes)) => { if bytes != content { ctx.violation("map.sealed.read_only.content", format!("read-only map of a {}-byte memory file (seals: {}) differs from its content", size, label)); } ctx.count("sealed.read_only_mapped", 1); },
                Ok(Err(e)) => {
                    ctx.count("sealed.read_only_refused", 1);
                    // A memory file that was never sealed is an ordinary file of a valid size: nothing to refuse.
                    if seals == 0 { ctx.violation("map.memfd.valid_file_refused", format!("read-only map of an unsealed {}-byte memory file (reached through /proc/self/fd) was refused: {}", size, e)); }
                },
                Err(p) => ctx.violation("map.sealed.read_only!panic", format!("MemoryMap::new(read-only) panicked on a {}-byte memory file (seals: {}): {}", size, label, p)),
            }
            // Mutable.
            ctx.checks += 1;
            let words = size / 8;
            let outcome = guard(|| match MemoryMap::new(&path, MappingMode::Mutable) {
                Err(e) => Err(e.to_string()),
                Ok(mut m) => {
                    let before: Vec<u64> = { let s: &[u64] = m.as_ref(); s.to_vec() };
                    unsafe { let s = m.as_mut_slice(); for i in 0..std::cmp::min(words, s.len()) { s[i] = (i as u64).wrapping_mul(0x9E37_79B9_7F4A_7C15) ^ 0x7777; } }
                    drop(m);
                    Ok(before)
                },
            });
            match outcome {
                Ok(Err(_)) => ctx.count("sealed.mutable_refused", 1),
                Ok(Ok(before)) => {
                    ctx.count("sealed.mutable_mapped", 1);
                    let expect: Vec<u8> = (0..words).flat_map(|i| ((i as u64).wrapping_mul(0x9E37_79B9_7F4A_7C15) ^ 0x7777).to_le_bytes()).collect();
                    let now = read_back(fd);
                    if before.iter().flat_map(|w| w.to_le_bytes()).collect::<Vec<u8>>() != content { ctx.violation("map.sealed.mutable.content", format!("mutable map of a {}-byte memory file (seals: {}) differs from its content", size, label)); }
                    if now != expect { ctx.violation("map.sealed.writes_lost", format!("MemoryMap::new(mutable) returned a map for a {}-byte memory file sealed against writing (seals: {}), but what was written through it is not in the file after drop ({} of {} bytes differ)", size, label, now.iter().zip(expect.iter()).filter(|(a, b)| a != b).count(), size)); }
                },
                Err(p) => ctx.violation("map.sealed.mutable!panic", format!("MemoryMap::new(mutable) panicked on a {}-byte memory file (seals: {}): {}", size, label, p)),
            }
            // Whatever was granted or refused: nothing of the memory file may still be mapped.
            ctx.checks += 1;
            let maps = std::fs::read_to_string("/proc/self/maps").unwrap_or_default();
            let left = maps.lines().filter(|l| l.contains("memfd:vmon-c18-sealed")).count();
            if left != 0 { ctx.violation("map.memfd.still_mapped", format!("{} mapping(s) of a {}-byte memory file (seals: {}) are left after every map was dropped or refused", left, size, label)); }
            unsafe { libc::close(fd); }
        }
    }
    ctx.case(hash64(&[8]), true);
    ctx.case(hash64(&[9]), true);
    ctx.sample(|| "sealed: memory files (memfd) unsealed / sealed against writing, mapped read-only and mutably through /proc/self/fd: refused, or the writes are in the file".to_string());
}

#[cfg(miri)]
fn sealed(_: &mut Ctx) {}

// Maps dropped by stack unwinding: a panic caught further up, a panicking worker thread that is joined. The process goes
// on, so "after the map is dropped no part of the file remains mapped" applies to these drops as to any other.
#[cfg(not(miri))]
fn unwinding(ctx: &mut Ctx) {
    if !ctx.mine(2) { return; }
    for (k, &size) in [8usize, 4096, 4096 * 3 + 8, 65536, 1 << 20].iter().enumerate() {
        for mode in [MappingMode::ReadOnly, MappingMode::Mutable] {
            if !ctx.begin_case() { continue; }
            let name = format!("{}/vmon-c18u-{}-{}-{}-{}", ctx.tmpdir, std::process::id(), ctx.shard, k, if mode == MappingMode::Mutable { "m" } else { "r" });
            let content = file_content(size, 0xD0 + k as u64);
            if std::fs::write(&name, &content).is_err() { ctx.inconclusive(format!("could not write {}", name)); continue; }
            let first = u64::from_le_bytes(content[..8].try_into().unwrap());
            // (a) caught on the same thread, two frames below the map.
            let r = guard(|| {
                let map = MemoryMap::new(&name, mode).unwrap();
                let alive = mapped_bytes(&name).0;
                let s: &[u64] = map.as_ref();
                if s[0] != first || alive == 0 { return (alive, false); }
                let inner = std::hint::black_box(s[0]);
                if inner == first { panic!("vmon: deliberate panic while a map is alive"); }
                (alive, true)
            });
            ctx.checks += 1;
            match r {
                Ok((alive, _)) => ctx.inconclusive(format!("unwinding: the map of {} was not usable ({} bytes mapped)", name, alive)),
                Err(_) => {
                    let (bytes, lines) = mapped_bytes(&name);
                    if bytes != 0 { ctx.violation("map.drop.unwinding.still_mapped", format!("{} bytes in {} mapping(s) of a {}-byte file are still mapped after the map ({:?}) was dropped by a panic that was caught", bytes, lines, size, mode)); }
                },
            }
            // (b) a worker thread panics while it owns a map; the thread is joined.
            let nm = name.clone();
            let h = std::thread::spawn(move || { let map = MemoryMap::new(&nm, mode).unwrap(); let s: &[u64] = map.as_ref(); let x = std::hint::black_box(s[0]); if x == first { panic!("vmon: deliberate panic in a worker thread that owns a map"); } x });
            let joined = h.join();
            ctx.checks += 1;
            if joined.is_ok() { ctx.inconclusive("unwinding: the worker thread did not panic".to_string()); }
            let (bytes, lines) = mapped_bytes(&name);
            if bytes != 0 { ctx.violation("map.drop.unwinding.still_mapped", format!("{} bytes in {} mapping(s) of a {}-byte file are still mapped after a worker thread that owned the map ({:?}) panicked and was joined", bytes, lines, size, mode)); }
            let _ = std::fs::remove_file(&name);
            ctx.case(hash64(&[0xD1, k as u64, (mode == MappingMode::Mutable) as u64]), true);
        }
    }
    ctx.sample(|| "unwinding: maps (both modes, 8 B - 1 MiB) dropped by a caught panic and by a panicking worker thread; /proc/self/maps afterwards".to_string());
}

#[cfg(miri)]
fn unwinding(_: &mut Ctx) {}
