// C05: raw and integer vectors behave as plain sequences under any operation history.
//
// After every operation the monitor compares (a) the returned value and the whole content with the model, (b) the tail
// invariant as seen through AsRef<[u64]> (exactly ceil(len/64) words, nothing set at or beyond len), (c) canonical form:
// a fresh vector built from the model by one fixed route must be ==, serialize identically and have the same count_ones.

use simple_sds::int_vector::IntVector;
use simple_sds::ops::{Vector, Resize, Pack, Access, Push, Pop};
use simple_sds::raw_vector::{RawVector, AccessRaw, PushRaw, PopRaw};
use simple_sds::serialize::Serialize;

use std::iter::FromIterator;

use crate::util::{guard, hash64, hash_str, Ctx, Rng};

pub fn run(ctx: &mut Ctx) {
    let part = ctx.part.clone();
    if part.is_empty() || part == "raw_exh" { raw_exhaustive(ctx); }
    if part.is_empty() || part == "raw" { raw_random(ctx); }
    if part.is_empty() || part == "int" { int_random(ctx); }
    if part.is_empty() || part == "int_exh" { int_exhaustive(ctx); }
}

fn ser<T: Serialize>(x: &T) -> Vec<u8> {
    let mut out: Vec<u8> = Vec::new();
    x.serialize(&mut out).unwrap();
    out
}

//-----------------------------------------------------------------------------

#[derive(Clone, Debug)]
enum RawOp {
    PushBit(bool),
    PushInt(u64, usize),
    PopBit,
    PopInt(usize),
    SetBit(usize, bool),
    SetInt(usize, u64, usize),
    Bit(usize),
    Int(usize, usize),
    Word(usize),
    Resize(usize, bool),
    Clear,
    Reserve(usize),
    Complement,
    WithLen(usize, bool),
    WithCapacity(usize),
    Clone,
    CloneFrom(usize, u64), // clone_from() a vector of that length filled with that pattern
}

fn model_int(m: &[bool], off: usize, w: usize) -> u64 {
    let mut v = 0u64;
    for i in 0..w { if m[off + i] { v |= 1u64 << i; } }
    v
}

fn raw_state_check(ctx: &mut Ctx, raw: &RawVector, m: &[bool], hist: &dyn Fn() -> String) -> bool {
    ctx.checks += 1;
    let mut ok = true;
    if raw.len() != m.len() {
        ctx.violation("raw.len", format!("len() = {}, model {} after {}", raw.len(), m.len(), hist()));
        return false;
    }
    if raw.is_empty() != m.is_empty() {
        ctx.violation("raw.is_empty", format!("is_empty() wrong after {}", hist()));
        ok = false;
    }
    for (i, b) in m.iter().enumerate() {
        if raw.bit(i) != *b {
            ctx.violation("raw.content", format!("bit({}) = {}, model {} after {}", i, raw.bit(i), b, hist()));
            ok = false;
            break;
        }
    }
    // Tail invariant, seen from outside.
    let words: &[u64] = raw.as_ref();
    if words.len() != (m.len() + 63) / 64 {
        ctx.violation("raw.tail.words", format!("{} words for {} bits after {}", words.len(), m.len(), hist()));
        ok = false;
    } else if m.len() % 64 != 0 {
        let last = words[words.len() - 1];
        if last >> (m.len() % 64) != 0 {
            ctx.violation("raw.tail.stale_bits", format!("bits at or beyond len {} are set in the last word ({:#018x}) after {}", m.len(), last, hist()));
            ok = false;
        }
    }
    let ones = m.iter().filter(|b| **b).count();
    if raw.count_ones() != ones {
        ctx.violation("raw.count_ones", format!("count_ones() = {}, model {} after {}", raw.count_ones(), ones, hist()));
        ok = false;
    }
    // Canonical form.
    let mut fresh = RawVector::new();
    for b in m.iter() { fresh.push_bit(*b); }
    if fresh != *raw {
        ctx.violation("raw.canonical.eq", format!("vector is not == to a freshly built vector with the same content after {}", hist()));
        ok = false;
    }
    if ser(&fresh) != ser(raw) {
        ctx.violation("raw.canonical.bytes", format!("vector serializes differently from a freshly built vector with the same content after {}", hist()));
        ok = false;
    }
    ok
}

// Applies one operation to both the vector and the model; returns false on a violation.
fn raw_apply(ctx: &mut Ctx, raw: &mut RawVector, m: &mut Vec<bool>, op: &RawOp, hist: &dyn Fn() -> String) -> bool {
    let mut ok = true;
    match op {
        RawOp::PushBit(b) => {
            if let Err(p) = guard(|| raw.push_bit(*b)) { ctx.violation("raw.push_bit!panic", format!("{} after {}", p, hist())); return false; }
            m.push(*b);
        },
        RawOp::PushInt(v, w) => {
            if let Err(p) = guard(|| unsafe { raw.push_int(*v, *w) }) { ctx.violation("raw.push_int!panic", format!("{} after {}", p, hist())); return false; }
            for i in 0..*w { m.push((v >> i) & 1 == 1); }
        },
        RawOp::PopBit => {
            let want = m.pop();
            ok &= ctx.expect_eq("raw.pop_bit", || format!("pop_bit() after {}", hist()), &guard(|| raw.pop_bit()), &want);
        },
        RawOp::PopInt(w) => {
            let want = if m.len() >= *w {
                let v = model_int(m, m.len() - w, *w);
                m.truncate(m.len() - w);
                Some(v)
            } else { None };
            ok &= ctx.expect_eq("raw.pop_int", || format!("pop_int({}) after {}", w, hist()), &guard(|| unsafe { raw.pop_int(*w) }), &want);
        },
        RawOp::SetBit(i, b) => {
            if let Err(p) = guard(|| raw.set_bit(*i, *b)) { ctx.violation("raw.set_bit!panic", format!("{} after {}", p, hist())); return false; }
            m[*i] = *b;
        },
        RawOp::SetInt(off, v, w) => {
            if let Err(p) = guard(|| unsafe { raw.set_int(*off, *v, *w) }) { ctx.violation("raw.set_int!panic", format!("{} after {}", p, hist())); return false; }
            for i in 0..*w { m[off + i] = (v >> i) & 1 == 1; }
        },
        RawOp::Bit(i) => {
            ok &= ctx.expect_eq("raw.bit", || format!("bit({}) after {}", i, hist()), &guard(|| raw.bit(*i)), &m[*i]);
        },
        RawOp::Int(off, w) => {
            let want = model_int(m, *off, *w);
            ok &= ctx.expect_eq("raw.int", || format!("int({}, {}) after {}", off, w, hist()), &guard(|| unsafe { raw.int(*off, *w) }), &want);
        },
        RawOp::Word(i) => {
            let hi = std::cmp::min(m.len(), (i + 1) * 64);
            let want = model_int(m, i * 64, hi - i * 64);
            ok &= ctx.expect_eq("raw.word", || format!("word({}) after {}", i, hist()), &guard(|| raw.word(*i)), &want);
        },
        RawOp::Resize(n, fill) => {
            if let Err(p) = guard(|| raw.resize(*n, *fill)) { ctx.violation("raw.resize!panic", format!("{} after {}", p, hist())); return false; }
            m.resize(*n, *fill);
        },
        RawOp::Clear => {
            if let Err(p) = guard(|| raw.clear()) { ctx.violation("raw.clear!panic", format!("{} after {}", p, hist())); return false; }
            m.clear();
        },
        RawOp::Reserve(k) => {
            if let Err(p) = guard(|| raw.reserve(*k)) { ctx.violation("raw.reserve!panic", format!("{} after {}", p, hist())); return false; }
        },
        RawOp::Complement => {
            match guard(|| raw.complement()) {
                Ok(c) => { *raw = c; },
                Err(p) => { ctx.violation("raw.complement!panic", format!("{} after {}", p, hist())); return false; },
            }
            for b in m.iter_mut() { *b = !*b; }
        },
        RawOp::WithLen(n, fill) => {
            match guard(|| RawVector::with_len(*n, *fill)) {
                Ok(c) => { *raw = c; },
                Err(p) => { ctx.violation("raw.with_len!panic", format!("{} after {}", p, hist())); return false; },
            }
            *m = vec![*fill; *n];
        },
        RawOp::WithCapacity(n) => {
            match guard(|| RawVector::with_capacity(*n)) {
                Ok(c) => { *raw = c; },
                Err(p) => { ctx.violation("raw.with_capacity!panic", format!("{} after {}", p, hist())); return false; },
            }
            m.clear();
        },
        RawOp::Clone => {
            let c = raw.clone();
            *raw = c;
        },
        RawOp::CloneFrom(n, pattern) => {
            let bits: Vec<bool> = (0..*n).map(|i| (pattern >> (i % 64)) & 1 == 1).collect();
            let mut src = RawVector::with_capacity(*n + (*pattern % 3) as usize * 64);
            for b in bits.iter() { src.push_bit(*b); }
            if let Err(p) = guard(|| raw.clone_from(&src)) { ctx.violation("raw.clone_from!panic", format!("{} after {}", p, hist())); return false; }
            *m = bits;
        },
    }
    ok & raw_state_check(ctx, raw, m, hist)
}

fn raw_random_op(rng: &mut Rng, m: &[bool], max_len: usize) -> RawOp {
    let len = m.len();
    let fillv = |rng: &mut Rng| match rng.below(4) { 0 => 0u64, 1 => !0u64, 2 => 0xAAAA_AAAA_AAAA_AAAA, _ => rng.next_u64() };
    loop {
        match rng.below(20) {
            0 | 1 if len < max_len => return RawOp::PushBit(rng.chance(2, 3)),
            2 | 3 | 4 if len + 64 <= max_len => { let v = fillv(rng); return RawOp::PushInt(v, rng.below(65)); },
            5 => return RawOp::PopBit,
            6 | 7 | 8 => return RawOp::PopInt(if rng.chance(1, 6) { rng.below(len + 70) % 65 } else { std::cmp::min(64, rng.below(std::cmp::max(1, len + 1))) }),
            9 if len > 0 => return RawOp::SetBit(rng.below(len), rng.chance(1, 2)),
            10 | 11 if len > 0 => { let w = std::cmp::min(rng.below(65), len); let off = rng.below(len - w + 1); let v = fillv(rng); return RawOp::SetInt(off, v, w); },
            12 if len > 0 => return RawOp::Bit(rng.below(len)),
            13 if len > 0 => { let w = std::cmp::min(rng.below(65), len); let off = rng.below(len - w + 1); return RawOp::Int(off, w); },
            14 if len > 0 => return RawOp::Word(rng.below((len + 63) / 64)),
            15 | 16 => {
                // Hover around word boundaries; both fill values.
                let target = match rng.below(4) {
                    0 => (len / 64) * 64 + rng.below(3),
                    1 => len.saturating_sub(rng.below(70)),
                    2 => len + rng.below(70),
                    _ => rng.below(max_len + 1),
                };
                return RawOp::Resize(std::cmp::min(target, max_len), rng.chance(1, 2));
            },
            17 => return match rng.below(6) { 0 => RawOp::Clear, 1 => RawOp::WithCapacity(rng.below(200)), 2 => RawOp::WithLen(rng.below(max_len + 1), rng.chance(1, 2)), 3 => if rng.chance(1, 2) { RawOp::Clone } else { RawOp::CloneFrom(rng.below(max_len + 1), rng.next_u64()) }, _ => RawOp::Reserve(rng.below(300)) },
            18 => return RawOp::Complement,
            _ => {},
        }
    }
}

fn raw_random(ctx: &mut Ctx) {
    let histories = ctx.size(2500, 40000);
    let mut rng = ctx.rng(0x51);
    for h in 0..histories {
        if !ctx.begin_case() { let _ = rng.next_u64(); continue; }
        let mut hr = ctx.rng(0x5100_0000 + h as u64);
        raw_history(ctx, &mut hr);
    }
}

// One random history on a raw vector, every step monitored. Also the entry point of the coverage-guided leg (fuzz.rs),
// where `hr` hands out the fuzzer's bytes.
pub fn raw_history(ctx: &mut Ctx, hr: &mut Rng) {
    let long = hr.chance(1, 4);
    let steps = 1 + hr.below(if long { 200 } else { 40 });
    let max_len = *hr.pick(&[70usize, 130, 200, 520]);
    let mut raw = RawVector::new();
    let mut m: Vec<bool> = Vec::new();
    let mut log: Vec<String> = Vec::new();
    let mut kinds: Vec<u64> = Vec::new();
    for _ in 0..steps {
        let op = raw_random_op(hr, &m, max_len);
        log.push(format!("{:?}", op));
        kinds.push(hash_str(&format!("{:?}", std::mem::discriminant(&op))));
        let hist = || log.join("; ");
        if !raw_apply(ctx, &mut raw, &mut m, &op, &hist) { break; }
    }
    ctx.case(hash64(&kinds), steps >= 2);
    ctx.sample(|| format!("raw history ({} ops): {}", log.len(), log.iter().take(12).cloned().collect::<Vec<_>>().join("; ")));
}

fn raw_exhaustive(ctx: &mut Ctx) {
    // All histories of <= L operations over a 9-operation alphabet, starting from a 70-bit all-ones vector.
    let depth = ctx.size(5, 6);
    let alphabet = 9u64;
    let mut total = 0u64;
    for d in 1..=depth as u32 { total += alphabet.pow(d); }
    ctx.note("cov.raw_exhaustive_histories", format!("{} (all sequences of 1..={} ops over a {}-op alphabet)", total, depth, alphabet));
    let mut index = 0u64;
    for d in 1..=depth as u32 {
        let total_d = alphabet.pow(d);
        let base = index;
        index += total_d;
        let n = ctx.nshards as u64;
        let mut next = (ctx.shard as u64 + n - ((base + 1) % n)) % n;
        while next < total_d {
            let code = next;
            next += n;
            if !ctx.begin_case() { continue; }
            let mut raw = RawVector::with_len(70, true);
            let mut m = vec![true; 70];
            let mut log: Vec<String> = Vec::new();
            let mut c = code;
            for _ in 0..d {
                let k = c % alphabet;
                c /= alphabet;
                let len = m.len();
                let op = match k {
                    0 => RawOp::PushBit(true),
                    1 => RawOp::PushInt(!0u64, 7),
                    2 => RawOp::PopBit,
                    3 => RawOp::PopInt(7),
                    4 => RawOp::PopInt(64),
                    5 => if len > 0 { RawOp::SetBit(len - 1, false) } else { RawOp::PushBit(false) },
                    6 => RawOp::Resize(len.saturating_sub(3), false),
                    7 => RawOp::Resize(len + 5, true),
                    _ => RawOp::Complement,
                };
                log.push(format!("{:?}", op));
                let hist = || format!("with_len(70,true); {}", log.join("; "));
                if !raw_apply(ctx, &mut raw, &mut m, &op, &hist) { break; }
            }
            ctx.case(hash64(&[0xE0, d as u64, code]), d >= 2);
            ctx.sample(|| format!("raw exhaustive: with_len(70,true); {}", log.join("; ")));
        }
    }
}

//-----------------------------------------------------------------------------

#[derive(Clone, Debug)]
enum IntOp {
    Push(u64),
    Pop,
    Set(usize, u64),
    Get(usize),
    Resize(usize, u64),
    Clear,
    Reserve(usize),
    Pack,
    ExtendU8(Vec<u8>),
    ExtendU16(Vec<u16>),
    ExtendU32(Vec<u32>),
    ExtendU64(Vec<u64>),
    ExtendUsize(Vec<usize>),
    FromVec(u8, Vec<u64>),   // item type selector 0..5
    FromIter(u8, Vec<u64>),
    New(usize),
    WithLen(usize, usize, u64),
    WithCapacity(usize, usize),
    CloneFrom(usize, Vec<u64>), // clone_from() a vector of that width holding those items
    Iter,
    IntoIter,
    IntoRaw,
}

fn trunc(v: u64, w: usize) -> u64 { if w >= 64 { v } else { v & ((1u64 << w) - 1) } }

fn naive_bit_len(n: u64) -> usize {
    let mut n = n;
    let mut len = 0;
    while n > 0 { len += 1; n >>= 1; }
    std::cmp::max(len, 1)
}

struct IntModel { width: usize, items: Vec<u64> }

fn int_state_check(ctx: &mut Ctx, v: &IntVector, m: &IntModel, hist: &dyn Fn() -> String) -> bool {
    ctx.checks += 1;
    let mut ok = true;
    if v.len() != m.items.len() || v.width() != m.width {
        ctx.violation("int.len_width", format!("(len, width) = ({}, {}), model ({}, {}) after {}", v.len(), v.width(), m.items.len(), m.width, hist()));
        return false;
    }
    if v.is_empty() != m.items.is_empty() { ctx.violation("int.is_empty", format!("is_empty() wrong after {}", hist())); ok = false; }
    for (i, x) in m.items.iter().enumerate() {
        let got = v.get(i);
        if got != *x {
            ctx.violation("int.content", format!("get({}) = {}, model {} after {}", i, got, x, hist()));
            ok = false;
            break;
        }
    }
    let raw: &RawVector = v.as_ref();
    let words: &[u64] = raw.as_ref();
    let bits = m.items.len() * m.width;
    if raw.len() != bits || words.len() != (bits + 63) / 64 {
        ctx.violation("int.tail.words", format!("raw len {} / {} words for {} bits after {}", raw.len(), words.len(), bits, hist()));
        ok = false;
    } else if bits % 64 != 0 && words[words.len() - 1] >> (bits % 64) != 0 {
        ctx.violation("int.tail.stale_bits", format!("bits beyond the logical end are set in the last word ({:#018x}) after {}", words[words.len() - 1], hist()));
        ok = false;
    }
    let mut fresh = IntVector::new(m.width).unwrap();
    for x in m.items.iter() { fresh.push(*x); }
    if fresh != *v { ctx.violation("int.canonical.eq", format!("vector is not == to a freshly built vector with the same width and content after {}", hist())); ok = false; }
    if ser(&fresh) != ser(v) { ctx.violation("int.canonical.bytes", format!("vector serializes differently from a freshly built vector with the same width and content after {}", hist())); ok = false; }
    let fr: &RawVector = fresh.as_ref();
    if fr.count_ones() != raw.count_ones() { ctx.violation("int.canonical.count_ones", format!("count_ones differs from a freshly built vector after {}", hist())); ok = false; }
    ok
}

fn int_apply(ctx: &mut Ctx, v: &mut IntVector, m: &mut IntModel, op: &IntOp, hist: &dyn Fn() -> String) -> bool {
    let mut ok = true;
    macro_rules! run {
        ($sig:expr, $e:expr) => {
            match guard(|| $e) { Ok(x) => x, Err(p) => { ctx.violation($sig, format!("{} after {}", p, hist())); return false; } }
        };
    }
    // Constructors with a valid width (1..=64) must return Ok.
    macro_rules! construct {
        ($sig:expr, $e:expr) => {
            match run!($sig, $e) { Ok(x) => x, Err(e) => { ctx.violation(&format!("{}.refused", $sig.trim_end_matches("!panic")), format!("constructor refused a valid width ({}) after {}", e, hist())); return false; } }
        };
    }
    match op {
        IntOp::Push(x) => { run!("int.push!panic", v.push(*x)); m.items.push(trunc(*x, m.width)); },
        IntOp::Pop => { let want = m.items.pop(); ok &= ctx.expect_eq("int.pop", || format!("pop() after {}", hist()), &guard(|| v.pop()), &want); },
        IntOp::Set(i, x) => { run!("int.set!panic", v.set(*i, *x)); m.items[*i] = trunc(*x, m.width); },
        IntOp::Get(i) => { ok &= ctx.expect_eq("int.get", || format!("get({}) after {}", i, hist()), &guard(|| v.get(*i)), &m.items[*i]); },
        IntOp::Resize(n, x) => { run!("int.resize!panic", v.resize(*n, *x)); m.items.resize(*n, trunc(*x, m.width)); },
        IntOp::Clear => { run!("int.clear!panic", v.clear()); m.items.clear(); },
        IntOp::Reserve(k) => {
            run!("int.reserve!panic", v.reserve(*k));
        },
        IntOp::Pack => {
            run!("int.pack!panic", v.pack());
            if let Some(mx) = m.items.iter().max() { m.width = naive_bit_len(*mx); }
        },
        IntOp::ExtendU8(xs) => { run!("int.extend!panic", v.extend(crate::gen::hinted(xs, xs.len() + m.items.len()))); for x in xs { m.items.push(trunc(*x as u64, m.width)); } },
        IntOp::ExtendU16(xs) => { run!("int.extend!panic", v.extend(crate::gen::hinted(xs, xs.len() + m.items.len()))); for x in xs { m.items.push(trunc(*x as u64, m.width)); } },
        IntOp::ExtendU32(xs) => { run!("int.extend!panic", v.extend(crate::gen::hinted(xs, xs.len() + m.items.len()))); for x in xs { m.items.push(trunc(*x as u64, m.width)); } },
        IntOp::ExtendU64(xs) => { run!("int.extend!panic", v.extend(crate::gen::hinted(xs, xs.len() + m.items.len()))); for x in xs { m.items.push(trunc(*x, m.width)); } },
        IntOp::ExtendUsize(xs) => { run!("int.extend!panic", v.extend(crate::gen::hinted(xs, xs.len() + m.items.len()))); for x in xs { m.items.push(trunc(*x as u64, m.width)); } },
        IntOp::FromVec(t, xs) | IntOp::FromIter(t, xs) => {
            let from_vec = matches!(op, IntOp::FromVec(_, _));
            let (nv, w) = match t {
                0 => { let s: Vec<u8> = xs.iter().map(|x| *x as u8).collect(); (run!("int.from!panic", if from_vec { IntVector::from(s.clone()) } else { IntVector::from_iter(crate::gen::hinted(&s, s.len() + 1)) }), 8) },
                1 => { let s: Vec<u16> = xs.iter().map(|x| *x as u16).collect(); (run!("int.from!panic", if from_vec { IntVector::from(s.clone()) } else { IntVector::from_iter(crate::gen::hinted(&s, s.len() + 1)) }), 16) },
                2 => { let s: Vec<u32> = xs.iter().map(|x| *x as u32).collect(); (run!("int.from!panic", if from_vec { IntVector::from(s.clone()) } else { IntVector::from_iter(crate::gen::hinted(&s, s.len() + 1)) }), 32) },
                3 => { let s: Vec<u64> = xs.clone(); (run!("int.from!panic", if from_vec { IntVector::from(s.clone()) } else { IntVector::from_iter(crate::gen::hinted(&s, s.len() + 1)) }), 64) },
                _ => { let s: Vec<usize> = xs.iter().map(|x| *x as usize).collect(); (run!("int.from!panic", if from_vec { IntVector::from(s.clone()) } else { IntVector::from_iter(crate::gen::hinted(&s, s.len() + 1)) }), 64) },
            };
            *v = nv;
            m.width = w;
            m.items = xs.iter().map(|x| trunc(*x, w)).collect();
        },
        IntOp::New(w) => { *v = construct!("int.new!panic", IntVector::new(*w)); m.width = *w; m.items.clear(); },
        IntOp::WithLen(n, w, x) => { *v = construct!("int.with_len!panic", IntVector::with_len(*n, *w, *x)); m.width = *w; m.items = vec![trunc(*x, *w); *n]; },
        IntOp::WithCapacity(n, w) => { *v = construct!("int.with_capacity!panic", IntVector::with_capacity(*n, *w)); m.width = *w; m.items.clear(); },
        IntOp::CloneFrom(w, xs) => {
            let mut src = construct!("int.new!panic", IntVector::new(*w));
            for x in xs.iter() { src.push(*x); }
            if let Err(p) = guard(|| v.clone_from(&src)) { ctx.violation("int.clone_from!panic", format!("{} after {}", p, hist())); return false; }
            m.width = *w;
            m.items = xs.iter().map(|x| trunc(*x, *w)).collect();
        },
        IntOp::Iter => {
            let got = guard(|| { let it = v.iter(); let l = it.len(); (it.collect::<Vec<u64>>(), l) });
            ok &= ctx.expect_eq("int.iter", || format!("iter() after {}", hist()), &got, &(m.items.clone(), m.items.len()));
        },
        IntOp::IntoIter => {
            let got = guard(|| { let it = v.clone().into_iter(); let l = it.len(); (it.collect::<Vec<u64>>(), l) });
            ok &= ctx.expect_eq("int.into_iter", || format!("into_iter() after {}", hist()), &got, &(m.items.clone(), m.items.len()));
        },
        IntOp::IntoRaw => {
            // The bits of the integer vector as a raw vector: items back to back, least significant bit first, clean tail.
            match guard(|| RawVector::from(v.clone())) {
                Ok(raw) => {
                    let mut bits: Vec<bool> = Vec::with_capacity(m.items.len() * m.width);
                    for x in m.items.iter() { for b in 0..m.width { bits.push((x >> b) & 1 == 1); } }
                    ok &= raw_state_check(ctx, &raw, &bits, &|| format!("RawVector::from(IntVector) after {}", hist()));
                },
                Err(p) => { ctx.violation("int.into_raw!panic", format!("{} after {}", p, hist())); ok = false; },
            }
        },
    }
    ok & int_state_check(ctx, v, m, hist)
}

fn wide_value(rng: &mut Rng, width: usize) -> u64 {
    match rng.below(6) {
        0 => 0,
        1 => !0u64,
        2 => trunc(!0u64, width),
        3 => trunc(rng.next_u64(), width),
        4 => rng.magnitude(64),
        _ => rng.next_u64(), // usually wider than the item width
    }
}

fn int_random_op(rng: &mut Rng, m: &IntModel, max_len: usize) -> IntOp {
    let len = m.items.len();
    let w = m.width;
    loop {
        match rng.below(24) {
            0..=4 if len < max_len => return IntOp::Push(wide_value(rng, w)),
            5 | 6 => return IntOp::Pop,
            7 | 8 if len > 0 => return IntOp::Set(rng.below(len), wide_value(rng, w)),
            9 if len > 0 => return IntOp::Get(rng.below(len)),
            10 | 11 => {
                let target = match rng.below(3) { 0 => len.saturating_sub(rng.below(5)), 1 => len + rng.below(6), _ => rng.below(max_len + 1) };
                return IntOp::Resize(std::cmp::min(target, max_len), wide_value(rng, w));
            },
            12 => return match rng.below(4) { 0 => IntOp::Clear, _ => IntOp::Reserve(rng.below(100)) },
            13 | 14 => return IntOp::Pack,
            15 | 16 if len + 6 <= max_len => {
                let k = rng.below(6);
                return match rng.below(5) {
                    0 => IntOp::ExtendU8((0..k).map(|_| rng.next_u64() as u8).collect()),
                    1 => IntOp::ExtendU16((0..k).map(|_| rng.next_u64() as u16).collect()),
                    2 => IntOp::ExtendU32((0..k).map(|_| rng.next_u64() as u32).collect()),
                    3 => IntOp::ExtendU64((0..k).map(|_| wide_value(rng, w)).collect()),
                    _ => IntOp::ExtendUsize((0..k).map(|_| wide_value(rng, w) as usize).collect()),
                };
            },
            17 => {
                let k = rng.below(std::cmp::min(max_len, 12) + 1);
                let t = rng.below(5) as u8;
                let xs: Vec<u64> = (0..k).map(|_| rng.magnitude(64)).collect();
                return if rng.chance(1, 2) { IntOp::FromVec(t, xs) } else { IntOp::FromIter(t, xs) };
            },
            18 => return IntOp::New(1 + rng.below(64)),
            19 => { let nw = 1 + rng.below(64); return IntOp::WithLen(rng.below(std::cmp::min(max_len, 20) + 1), nw, wide_value(rng, nw)); },
            20 => { if rng.chance(1, 2) { return IntOp::WithCapacity(rng.below(50), 1 + rng.below(64)); } let nw = if rng.chance(1, 3) { w } else { 1 + rng.below(64) }; let k = rng.below(std::cmp::min(max_len, 30) + 1); return IntOp::CloneFrom(nw, (0..k).map(|_| wide_value(rng, nw)).collect()); },
            21 => return IntOp::Iter,
            22 => return IntOp::IntoIter,
            23 => return IntOp::IntoRaw,
            _ => {},
        }
    }
}

fn int_random(ctx: &mut Ctx) {
    let per_width = ctx.size(60, 900);
    // The widths in an order that differs from shard to shard (37 is coprime to 64): a leg that stops on its operation
    // budget (the interpreter legs) then covers different widths in different shards.
    for step in 0..64usize {
        let width = 1 + (step * 37 + ctx.shard * 11) % 64;
        for h in 0..per_width {
            if !ctx.begin_case() { continue; }
            let mut hr = ctx.rng(0x1470_0000 + (width as u64) * 100_000 + h as u64);
            int_history(ctx, &mut hr, width);
        }
    }
}

// One random history on an integer vector of the given width (see raw_history).
pub fn int_history(ctx: &mut Ctx, hr: &mut Rng, width: usize) {
    let long = hr.chance(1, 4);
    let steps = 1 + hr.below(if long { 200 } else { 40 });
    let max_len = *hr.pick(&[5usize, 17, 40, 130]);
    let mut v = match guard(|| IntVector::new(width)) { Ok(Ok(x)) => x, other => { ctx.violation("int.new.refused", format!("IntVector::new({}) did not return a vector: {:?}", width, other.map(|r| r.map(|_| ())))); return; } };
    let mut m = IntModel { width, items: Vec::new() };
    let mut log: Vec<String> = vec![format!("new({})", width)];
    let mut kinds: Vec<u64> = vec![width as u64];
    for _ in 0..steps {
        let op = int_random_op(hr, &m, max_len);
        log.push(format!("{:?}", op));
        kinds.push(hash_str(&format!("{:?}", std::mem::discriminant(&op))));
        let hist = || log.join("; ");
        if !int_apply(ctx, &mut v, &mut m, &op, &hist) { break; }
    }
    ctx.case(hash64(&kinds), steps >= 2);
    ctx.sample(|| format!("int history ({} ops): {}", log.len(), log.iter().take(10).cloned().collect::<Vec<_>>().join("; ")));
}

fn int_exhaustive(ctx: &mut Ctx) {
    // All histories of <= L operations over an 8-operation alphabet, for several widths, starting from 9 all-ones items.
    let depth = ctx.size(4, 5);
    let alphabet = 8u64;
    let widths = [1usize, 7, 13, 31, 32, 33, 63, 64];
    let mut index = 0u64;
    for &w in widths.iter() {
        for d in 1..=depth as u32 {
            let total_d = alphabet.pow(d);
            let base = index;
            index += total_d;
            let n = ctx.nshards as u64;
            let mut next = (ctx.shard as u64 + n - ((base + 1) % n)) % n;
            while next < total_d {
                let code = next;
                next += n;
                if !ctx.begin_case() { continue; }
                let mut v = match guard(|| IntVector::with_len(9, w, !0u64)) { Ok(Ok(x)) => x, other => { ctx.violation("int.with_len.refused", format!("IntVector::with_len(9, {}, !0) did not return a vector: {:?}", w, other.map(|r| r.map(|_| ())))); continue; } };
                let mut m = IntModel { width: w, items: vec![trunc(!0u64, w); 9] };
                let mut log: Vec<String> = vec![format!("with_len(9,{},!0)", w)];
                let mut c = code;
                for _ in 0..d {
                    let k = c % alphabet;
                    c /= alphabet;
                    let len = m.items.len();
                    let op = match k {
                        0 => IntOp::Push(!0u64),
                        1 => IntOp::Pop,
                        2 => if len > 0 { IntOp::Set(len - 1, 1) } else { IntOp::Push(1) },
                        3 => IntOp::Resize(len.saturating_sub(2), 0),
                        4 => IntOp::Resize(len + 2, !0u64),
                        5 => IntOp::Pack,
                        6 => IntOp::Push(0),
                        _ => IntOp::ExtendU8(vec![0xFF, 0x01]),
                    };
                    log.push(format!("{:?}", op));
                    let hist = || log.join("; ");
                    if !int_apply(ctx, &mut v, &mut m, &op, &hist) { break; }
                }
                ctx.case(hash64(&[0xE1, w as u64, d as u64, code]), d >= 2);
                ctx.sample(|| format!("int exhaustive: {}", log.join("; ")));
            }
        }
    }
    ctx.note("cov.int_exhaustive", format!("all sequences of 1..={} ops over an {}-op alphabet x widths {:?}", depth, alphabet, widths));
}
