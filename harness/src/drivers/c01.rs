// C01: plain bitvector answers every rank/select/pred/succ query exactly.
//
// Parts: small (exhaustive small scope, every route), boundary (boundary lengths x densities x shapes),
// regime (vectors with long / short / partial select superblocks for ones and for zeros).

use simple_sds::bit_vector::BitVector;
use simple_sds::ops::{BitVec, Rank, Select, SelectZero, PredSucc};
use simple_sds::rl_vector::RLVector;
use simple_sds::sparse_vector::SparseVector;

use crate::gen;
use crate::mk;
use crate::models::{Model, NaiveBits, SetModel};
use crate::mon::{check_bv, QArgs, QOpts};
use crate::util::{guard, hash64, Ctx};

pub fn run(ctx: &mut Ctx) {
    let part = ctx.part.clone();
    if part.is_empty() || part == "small" { small(ctx); }
    if part.is_empty() || part == "boundary" { boundary(ctx); word_masks(ctx); }
    if part.is_empty() || part == "regime" { regime(ctx); }
}

fn routes(bits: &[bool], ctx: &mut Ctx, code: u64) -> Vec<(&'static str, Result<BitVector, String>)> {
    let mut rng = ctx.rng(code);
    let pos = gen::positions(bits);
    let n = bits.len();
    let mut out: Vec<(&'static str, Result<BitVector, String>)> = Vec::new();
    out.push(("raw.set_bit", guard(|| mk::bv_set_bit(bits))));
    out.push(("raw.push", guard(|| mk::bv_push(bits, &mut rng))));
    out.push(("from_iter", guard(|| mk::bv_iter(bits))));
    out.push(("raw.push_pop", guard(|| mk::bv_push_pop(bits, &mut rng))));
    out.push(("copy.sparse", mk::sparse_set(n, &pos).and_then(|sv| guard(|| BitVector::copy_bit_vec(&sv)))));
    let runs = SetModel::new(n, pos.clone()).runs();
    out.push(("from.rl", mk::rl_runs(n, &runs).and_then(|rv| guard(|| BitVector::from(rv)))));
    // Conversion from a sparse vector that holds the same positions with duplicates (a multiset): the bits are still B.
    if !pos.is_empty() {
        let mut dup: Vec<usize> = Vec::with_capacity(pos.len() * 2);
        for (k, &p) in pos.iter().enumerate() { dup.push(p); if (k as u64 + code) % 2 == 0 { dup.push(p); } }
        out.push(("copy.multiset", mk::multiset_set(n, &dup).and_then(|sv| guard(|| BitVector::copy_bit_vec(&sv)))));
    }
    out
}

fn check_one(ctx: &mut Ctx, route: &str, bv: Result<BitVector, String>, m: &dyn Model, args: &QArgs, opts: &QOpts) {
    match bv {
        Ok(mut bv) => {
            if let Err(p) = guard(|| mk::enable_all(&mut bv)) {
                ctx.violation("bitvector.enable!panic", format!("enable_* panicked ({}) via {} on {}", p, route, m.describe()));
                return;
            }
            check_bv("bitvector", &bv, m, args, opts, ctx);
        },
        Err(e) => ctx.violation("bitvector.construct", format!("construction via {} failed ({}) on {}", route, e, m.describe())),
    }
}

fn small(ctx: &mut Ctx) {
    let max_len = ctx.size(13, 16);
    let opts = QOpts::default();
    let mut index: u64 = 0;
    for n in 0..=max_len {
        for code in 0..(1u64 << n) {
            index += 1;
            if !ctx.mine(index) { continue; }
            if !ctx.begin_case() { continue; }
            let bits = gen::pattern(n, code);
            let model = NaiveBits(bits.clone());
            let mut args = QArgs::all(n, model.count_ones(), model.count_zeros(), 3);
            // "all query arguments": the extreme values as well.
            args.idx.extend(QArgs::extremes());
            args.ranks.extend(QArgs::extremes());
            let args = args.dedup();
            let ones = model.count_ones();
            for (route, bv) in routes(&bits, ctx, index) {
                check_one(ctx, route, bv, &model, &args, &opts);
            }
            ctx.case(hash64(&[1, n as u64, code]), n <= 1 || (ones > 0 && ones < n));
            ctx.sample(|| format!("small: bits={} x routes [raw.set_bit, raw.push, raw.push_pop, from_iter, copy.sparse, from.rl, copy.multiset] x all arguments 0..len+3", crate::util::fmt_bits(&bits, 64)));
        }
    }
    ctx.count("small.max_len", max_len as u64);
}

fn boundary_args(n: usize, m: &SetModel, rng: &mut crate::util::Rng, budget: usize) -> QArgs {
    if n <= 4200 {
        let mut a = QArgs::all(n, m.count_ones(), m.count_zeros(), 3);
        a.idx.extend(QArgs::extremes());
        a.ranks.extend(QArgs::extremes());
        return a.dedup();
    }
    let mut idx: Vec<usize> = Vec::new();
    // Word / block / superblock-ish boundaries and the end.
    for &b in &[64usize, 512, 4096, 32768] {
        let mut x = b;
        let step = std::cmp::max(b, (n / 40 / b) * b);
        while x < n + b {
            for d in 0..2 { idx.push(x.saturating_sub(d)); idx.push(x + d); }
            x += step;
        }
    }
    for d in 0..3 { idx.push(n.saturating_sub(d)); idx.push(n + d); idx.push(d); }
    idx.extend(QArgs::extremes());
    for _ in 0..budget { idx.push(rng.below(n + 2)); }
    let ones = m.count_ones();
    let zeros = m.count_zeros();
    let mut ranks: Vec<usize> = Vec::new();
    for &c in &[ones, zeros] {
        for d in 0..3 { ranks.push(c.saturating_sub(d)); ranks.push(c + d); ranks.push(d); }
        let mut r = 0;
        while r < c + 4096 {
            for d in 0..2usize { ranks.push(r.saturating_sub(d)); ranks.push(r + d); }
            r += 64 * std::cmp::max(1, c / 64 / 60);
        }
        for k in 0..(c / 4096 + 2) { for d in 0..2usize { ranks.push((k * 4096).saturating_sub(d)); ranks.push(k * 4096 + d); } }
        for _ in 0..budget / 2 { ranks.push(rng.below(c + 2)); }
    }
    QArgs { idx, ranks }.dedup()
}

fn boundary(ctx: &mut Ctx) {
    let mut index: u64 = 0;
    let opts = QOpts { iter_limit: 70000, ..QOpts::default() };
    let budget = ctx.size(800, 6000);
    let reps = ctx.size(1, 3);
    for rep in 0..reps {
        for &n in gen::BOUNDARY_LENGTHS.iter() {
            for (di, &d) in gen::DENSITIES.iter().enumerate() {
                for (si, &s) in gen::SHAPES.iter().enumerate() {
                    // Shapes only matter for the three random densities.
                    let random = matches!(d, gen::Density::Sparse64 | gen::Density::Half | gen::Density::Dense64);
                    if !random && si > 0 { continue; }
                    index += 1;
                    if !ctx.mine(index) { continue; }
                    if !ctx.begin_case() { continue; }
                    let mut rng = ctx.rng(0xB0 + index);
                    let bits = gen::bits(&mut rng, n, d, s);
                    let model = SetModel::from_bits(&bits);
                    let args = boundary_args(n, &model, &mut rng, budget);
                    let route = index % 4;
                    let bv = match route {
                        0 => guard(|| mk::bv_set_bit(&bits)),
                        1 => guard(|| mk::bv_push(&bits, &mut rng)),
                        2 => guard(|| mk::bv_push_pop(&bits, &mut rng)),
                        _ => guard(|| mk::bv_iter(&bits)),
                    };
                    check_one(ctx, ["raw.set_bit", "raw.push", "raw.push_pop", "from_iter"][route as usize], bv, &model, &args, &opts);
                    let ones = model.count_ones();
                    ctx.case(hash64(&[2, n as u64, di as u64, si as u64, rep as u64, crate::util::hash64(&model.ones.iter().map(|x| *x as u64).collect::<Vec<u64>>())]), true);
                    ctx.sample(|| format!("boundary: len={} density={:?} shape={:?} ones={} route={} idx_args={} rank_args={}", n, d, s, ones, route, args.idx.len(), args.ranks.len()));
                }
            }
        }
    }
}

// Vectors whose set (or unset) bits sit only in chosen words of each 512-bit block: the rank samples store relative
// ranks for 7 of the 8 words, so "only the last word", "only the first word", ... are regimes of their own.
fn word_masks(ctx: &mut Ctx) {
    let opts = QOpts { iter_limit: 70000, ..QOpts::default() };
    let lengths = [512usize, 513, 1024, 1536, 4096, 4097, 4159];
    let mut index: u64 = 1 << 20;
    for &n in lengths.iter() {
        for mask_kind in 0..12usize {
            for invert in [false, true] {
                index += 1;
                if !ctx.mine(index) { continue; }
                if !ctx.begin_case() { continue; }
                let mut rng = ctx.rng(0xB7 + index);
                let mut bits = vec![false; n];
                let blocks = (n + 511) / 512;
                for b in 0..blocks {
                    // Which words of this block may hold set bits.
                    let mask: u8 = match mask_kind { k if k < 8 => 1u8 << k, 8 => 0b1000_0001, 9 => 0b0100_0000 | (1 << (b % 8)) as u8, 10 => rng.next_u64() as u8, _ => if b % 2 == 0 { 0 } else { 0x80 } };
                    for w in 0..8 {
                        if mask & (1 << w) == 0 { continue; }
                        let dense = rng.chance(1, 3);
                        for j in 0..64 {
                            let p = b * 512 + w * 64 + j;
                            if p < n && (if dense { rng.chance(7, 8) } else { rng.chance(1, 12) }) { bits[p] = true; }
                        }
                    }
                }
                if invert { for x in bits.iter_mut() { *x = !*x; } }
                let model = SetModel::from_bits(&bits);
                let mut args = QArgs::all(n, model.count_ones(), model.count_zeros(), 3);
                args.idx.extend(QArgs::extremes());
                let args = args.dedup();
                let bv = guard(|| mk::bv_set_bit(&bits));
                check_one(ctx, "raw.set_bit", bv, &model, &args, &opts);
                ctx.case(hash64(&[4, n as u64, mask_kind as u64, invert as u64, hash64(&model.ones.iter().map(|x| *x as u64).collect::<Vec<u64>>())]), true);
                ctx.sample(|| format!("word_masks: len={} set bits only in words selected by mask kind {} of each 512-bit block (inverted={}), every argument", n, mask_kind, invert));
            }
        }
    }
}

// Independent computation of the long/short classification: span of each full or partial superblock of `positions`.
// Short superblocks whose span is at least half the long/short threshold: their relative offsets need as many bits as
// the threshold itself has (the widest values the block samples of a short superblock ever hold).
fn wide_short_superblocks(positions_count: usize, select: &dyn Fn(usize) -> usize, len: usize) -> usize {
    let bl = 64 - (std::cmp::max(len, 1) as u64).leading_zeros() as usize;
    let log4 = bl * bl * bl * bl;
    let half = 1usize << (63 - (log4 as u64).leading_zeros() as usize); // largest power of two <= log4
    let mut wide = 0;
    let mut r = 0;
    while r < positions_count {
        let start = select(r);
        let limit = if r + 4096 < positions_count { select(r + 4096) } else { len };
        let last = select(std::cmp::min(r + 4095, positions_count - 1));
        if limit - start < log4 && last - start >= half { wide += 1; }
        r += 4096;
    }
    wide
}

fn superblock_classes(positions_count: usize, select: &dyn Fn(usize) -> usize, len: usize) -> (usize, usize) {
    let mut long = 0;
    let mut short = 0;
    let bl = 64 - (std::cmp::max(len, 1) as u64).leading_zeros() as usize;
    let log4 = bl * bl * bl * bl;
    let mut r = 0;
    while r < positions_count {
        let start = select(r);
        let limit = if r + 4096 < positions_count { select(r + 4096) } else { len };
        if limit - start >= log4 { long += 1; } else { short += 1; }
        r += 4096;
    }
    (long, short)
}

fn regime(ctx: &mut Ctx) {
    // (spread, dense ones, sparse superblocks, tail ones, tail span, invert)
    let mut configs: Vec<(usize, usize, usize, usize, usize, bool)> = vec![
        (260_000, 9000, 2, 5, 250_000, false),
        (260_000, 9000, 2, 5, 250_000, true),
        (300_000, 4096, 3, 4096, 300_000, false),
        (300_000, 4096, 3, 4096, 300_000, true),
    ];
    if !ctx.quick() {
        configs.extend_from_slice(&[
            (400_000, 20_000, 4, 100, 260_000, false),
            (400_000, 20_000, 4, 100, 260_000, true),
            (250_000, 4097, 1, 1, 240_000, false),
            (250_000, 4097, 1, 1, 240_000, true),
            (280_000, 8192, 5, 0, 0, false),
            (280_000, 8192, 5, 0, 0, true),
        ]);
    }
    // Superblocks with prescribed spans around the long/short threshold T = bit_len(len)^4 and around the largest power of
    // two below it (for ~1.3 Mbit: T = 194 481, 2^17 = 131 072): (shape, invert).
    let mut span_cfgs: Vec<(usize, bool)> = vec![(4, false), (4, true)];
    if !ctx.quick() { span_cfgs.extend_from_slice(&[(0, false), (1, true), (1, false), (2, true), (3, false), (0, true)]); }
    let stride = 1;
    for ci in 0..configs.len() + span_cfgs.len() {
        if !ctx.mine(ci as u64) { continue; }
        if !ctx.begin_case() { continue; }
        let mut rng = ctx.rng(0x4E + ci as u64);
        let bits = if ci < configs.len() {
            let cfg = configs[ci];
            gen::superblock_mix(&mut rng, cfg.0, cfg.1, cfg.2, cfg.3, cfg.4, cfg.5)
        } else {
            let (shape, invert) = span_cfgs[ci - configs.len()];
            let t = 21usize * 21 * 21 * 21; // the total below stays between 2^20 and 2^21 bits
            let spans = [t - 1, 131_072, t, 131_071, 5000 + rng.below(3000), t - 2 - rng.below(60_000), 131_073 + rng.below(1000), 65_536, t + 1];
            gen::superblock_spans(&mut rng, &spans, shape, invert)
        };
        let n = bits.len();
        let model = SetModel::from_bits(&bits);
        let ones = model.count_ones();
        let zeros = n - ones;
        let route = ci % 3;
        let built = match route {
            0 => guard(|| mk::bv_set_bit(&bits)),
            1 => guard(|| mk::bv_push(&bits, &mut rng)),
            _ => guard(|| mk::bv_iter(&bits)),
        };
        let mut bv = match built {
            Ok(bv) => bv,
            Err(e) => { ctx.violation("bitvector.construct", format!("regime construction failed: {}", e)); continue; },
        };

        // Build the supports one at a time so that the probes can be attributed.
        let snap = mk::probe_snapshot();
        if let Err(p) = guard(|| bv.enable_select()) { ctx.violation("bitvector.enable!panic", format!("enable_select panicked: {}", p)); continue; }
        mk::probe_delta(ctx, "identity", &snap);
        let snap = mk::probe_snapshot();
        if let Err(p) = guard(|| bv.enable_select_zero()) { ctx.violation("bitvector.enable!panic", format!("enable_select_zero panicked: {}", p)); continue; }
        mk::probe_delta(ctx, "complement", &snap);
        if let Err(p) = guard(|| { bv.enable_rank(); bv.enable_pred_succ(); }) { ctx.violation("bitvector.enable!panic", format!("enable_rank panicked: {}", p)); continue; }

        // What the definition says about superblock regimes, computed from the model.
        let zero_positions: Vec<usize> = (0..n).filter(|i| !bits[*i]).collect();
        let (long1, short1) = superblock_classes(ones, &|r| model.ones[r], n);
        let (long0, short0) = superblock_classes(zeros, &|r| zero_positions[r], n);
        ctx.count("regime.model_wide_short_superblocks_ones", wide_short_superblocks(ones, &|r| model.ones[r], n) as u64);
        ctx.count("regime.model_wide_short_superblocks_zeros", wide_short_superblocks(zeros, &|r| zero_positions[r], n) as u64);
        ctx.count("regime.model_long_superblocks_ones", long1 as u64);
        ctx.count("regime.model_short_superblocks_ones", short1 as u64);
        ctx.count("regime.model_long_superblocks_zeros", long0 as u64);
        ctx.count("regime.model_short_superblocks_zeros", short0 as u64);

        // Phase 1: every rank (thorough) / every `stride`-th rank plus all superblock and block starts (quick), ones.
        let snap = mk::probe_snapshot();
        let mut r = 0;
        while r < ones + 2 {
            let want = model.ones.get(r).copied();
            ctx.expect_eq("bitvector.select.regime", || format!("select({}) on regime vector #{} (len {}, ones {})", r, ci, n, ones), &guard(|| bv.select(r)), &want);
            r += if r % 64 == 0 || r % 64 == 63 || stride == 1 { 1 } else { std::cmp::min(stride, 63 - r % 64) };
        }
        mk::probe_delta(ctx, "identity", &snap);

        // Phase 2: the same for zeros.
        let snap = mk::probe_snapshot();
        let mut r = 0;
        while r < zeros + 2 {
            let want = zero_positions.get(r).copied();
            ctx.expect_eq("bitvector.select_zero.regime", || format!("select_zero({}) on regime vector #{} (len {}, zeros {})", r, ci, n, zeros), &guard(|| bv.select_zero(r)), &want);
            r += if r % 64 == 0 || r % 64 == 63 || stride == 1 { 1 } else { std::cmp::min(stride, 63 - r % 64) };
        }
        mk::probe_delta(ctx, "complement", &snap);

        // Phase 3: rank / pred / succ / iterators at sampled positions and around every superblock start.
        let mut idx: Vec<usize> = Vec::new();
        let mut k = 0;
        while k < ones { let p = model.ones[k]; for d in 0..2 { idx.push(p.saturating_sub(d)); idx.push(p + d); } k += 4096; }
        let mut k = 0;
        while k < zeros { let p = zero_positions[k]; for d in 0..2 { idx.push(p.saturating_sub(d)); idx.push(p + d); } k += 4096; }
        for _ in 0..ctx.size(3000, 30000) { idx.push(rng.below(n + 2)); }
        for d in 0..3 { idx.push(n.saturating_sub(d)); idx.push(n + d); }
        let mut ranks: Vec<usize> = Vec::new();
        for _ in 0..ctx.size(500, 5000) { ranks.push(rng.below(std::cmp::max(ones, zeros) + 2)); }
        let args = QArgs { idx, ranks }.dedup();
        let opts = QOpts { iter_limit: if ctx.quick() { 0 } else { 1 << 20 }, tail: 3, ..QOpts::default() };
        check_bv("bitvector", &bv, &model, &args, &opts, ctx);

        ctx.case(hash64(&[3, ci as u64, n as u64, ones as u64, long1 as u64, short1 as u64, long0 as u64, short0 as u64]), true);
        ctx.sample(|| format!("regime: len={} ones={} zeros={} model superblocks ones long/short={}/{} zeros long/short={}/{} route={}", n, ones, zeros, long1, short1, long0, short0, route));
    }
}

#[allow(dead_code)]
fn unused(_: &SparseVector, _: &RLVector) {}
