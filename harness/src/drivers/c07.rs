// C07: files follow the published serialization format in both directions.
//
// Part `write`: writes <dir>/w_<shard>_<i>.bin (bytes from Serialize::serialize) and .txt (logical content taken from the
// MODEL); the Python codec in /verif/fmt decodes the bytes by the document alone and compares.
// Part `read`: loads <dir>/r_<i>.bin (produced by the Python encoder from the document alone, supports absent, any
// admissible parameter choice) with the real loader and runs the query monitors against a model built from the .txt.

use simple_sds::bit_vector::BitVector;
use simple_sds::int_vector::IntVector;
use simple_sds::ops::{Vector, Access, Push, BitVec};
use simple_sds::raw_vector::{RawVector, AccessRaw};
use simple_sds::rl_vector::RLVector;
use simple_sds::serialize::Serialize;
use simple_sds::sparse_vector::SparseVector;
use simple_sds::wavelet_matrix::WaveletMatrix;
use simple_sds::wavelet_matrix::wm_core::WMCore;

use std::collections::BTreeMap;
use std::fmt::Write as _;

use crate::drivers::c02::{predict_width, universe_for};
use crate::drivers::c03::{check_run_iter, gen_runs};
use crate::drivers::c04::{check_core, check_wm, gen_vector};
use crate::gen;
use crate::mk;
use crate::models::{Model, RunModel, SetModel};
use crate::mon::{check_bv, QArgs, QOpts};
use crate::util::{guard, hash64, hash_bytes, Ctx, Rng};

pub fn run(ctx: &mut Ctx) {
    let part = ctx.part.clone();
    if part == "write" { write_cases(ctx); }
    if part == "read" { read_cases(ctx); }
}

fn list(v: &[usize]) -> String {
    let mut s = String::with_capacity(v.len() * 8);
    for (i, x) in v.iter().enumerate() { if i > 0 { s.push(' '); } let _ = write!(s, "{}", x); }
    s
}

fn list64(v: &[u64]) -> String {
    let mut s = String::with_capacity(v.len() * 8);
    for (i, x) in v.iter().enumerate() { if i > 0 { s.push(' '); } let _ = write!(s, "{}", x); }
    s
}

fn hex(b: &[u8]) -> String {
    let mut s = String::with_capacity(b.len() * 2);
    for x in b { let _ = write!(s, "{:02x}", x); }
    s
}

fn emit<T: Serialize>(ctx: &mut Ctx, k: &mut usize, x: &T, content: String) {
    let mut bytes: Vec<u8> = Vec::new();
    if let Err(p) = guard(|| x.serialize(&mut bytes).unwrap()) {
        ctx.violation("written.serialize!panic", format!("{} while serializing {}", p, content.lines().next().unwrap_or("")));
        return;
    }
    if bytes.len() > (1 << 20) { return; }
    let base = format!("{}/w_{:02}_{:05}", ctx.dir, ctx.shard, *k);
    std::fs::write(format!("{}.bin", base), &bytes).unwrap();
    std::fs::write(format!("{}.txt", base), content).unwrap();
    *k += 1;
    ctx.case(hash_bytes(&bytes), true);
    ctx.checks += 1;
}

fn write_cases(ctx: &mut Ctx) {
    std::fs::create_dir_all(&ctx.dir).unwrap();
    let per = ctx.size(14, 200);
    let mut k = 0usize;
    for i in 0..per {
        if !ctx.begin_case() { continue; }
        let mut rng: Rng = ctx.rng(0xC07_000 + i as u64);
        // Plain bitvector with a subset of supports; raw vector.
        let n = match i % 5 { 0 => gen::BOUNDARY_LENGTHS[rng.below(21)], 1 => rng.below(300), 2 => rng.below(20000), 3 => 130_000 + rng.below(500), _ => 64 * rng.below(60) };
        let d = *rng.pick(&gen::DENSITIES);
        let s = *rng.pick(&gen::SHAPES);
        let bits = gen::bits(&mut rng, n, d, s);
        let m = SetModel::from_bits(&bits);
        let subset = rng.below(8);
        let mut bv = mk::bv_push(&bits, &mut rng);
        if subset & 1 != 0 { simple_sds::ops::Rank::enable_rank(&mut bv); }
        if subset & 2 != 0 { simple_sds::ops::Select::enable_select(&mut bv); }
        if subset & 4 != 0 { simple_sds::ops::SelectZero::enable_select_zero(&mut bv); }
        emit(ctx, &mut k, &bv, format!("type bitvector\nn {}\nsupports {} {} {}\nones {}\n", n, subset & 1, (subset >> 1) & 1, (subset >> 2) & 1, list(&m.ones)));
        emit(ctx, &mut k, &mk::raw_push(&bits, &mut rng), format!("type raw\nn {}\nones {}\n", n, list(&m.ones)));
        // The same kinds of vector after a history of operations (resizes inside a word, pops, pushes): the document's
        // "unused bits must be 0" must hold for whatever the API left behind, not only for freshly built vectors.
        {
            let mut hb: Vec<bool> = bits.iter().copied().take(3000).collect();
            let mut raw = mk::raw_set_bit(&hb);
            for _ in 0..(1 + rng.below(6)) {
                match rng.below(5) {
                    0 => { let k = rng.below(std::cmp::min(hb.len(), 70) + 1); let nl = hb.len() - k; raw.resize(nl, false); hb.truncate(nl); },
                    1 => { let k = 1 + rng.below(70); let nl = hb.len() + k; raw.resize(nl, true); hb.resize(nl, true); },
                    2 => { let k = 1 + rng.below(70); let nl = hb.len() + k; raw.resize(nl, false); hb.resize(nl, false); },
                    3 => { if simple_sds::raw_vector::PopRaw::pop_bit(&mut raw).is_some() { hb.pop(); } },
                    _ => { simple_sds::raw_vector::PushRaw::push_bit(&mut raw, true); hb.push(true); },
                }
            }
            let hm = SetModel::from_bits(&hb);
            emit(ctx, &mut k, &raw, format!("type raw\nn {}\nones {}\n", hb.len(), list(&hm.ones)));
            emit(ctx, &mut k, &BitVector::from(raw), format!("type bitvector\nn {}\nsupports 0 0 0\nones {}\n", hb.len(), list(&hm.ones)));
            let hw = 1 + rng.below(64);
            let mut hv = IntVector::new(hw).unwrap();
            let mut hvals: Vec<u64> = Vec::new();
            let trunc = |v: u64| if hw == 64 { v } else { v & ((1u64 << hw) - 1) };
            for _ in 0..rng.below(40) { let v = rng.next_u64() | 1; hv.push(v); hvals.push(trunc(v)); }
            for _ in 0..(1 + rng.below(5)) {
                match rng.below(4) {
                    0 => { let nl = hvals.len().saturating_sub(rng.below(4)); simple_sds::ops::Resize::resize(&mut hv, nl, 0); hvals.truncate(nl); },
                    1 => { let nl = hvals.len() + rng.below(4); simple_sds::ops::Resize::resize(&mut hv, nl, !0u64); hvals.resize(nl, trunc(!0u64)); },
                    2 => { if simple_sds::ops::Pop::pop(&mut hv).is_some() { hvals.pop(); } },
                    _ => { let v = !0u64; hv.push(v); hvals.push(trunc(v)); },
                }
            }
            emit(ctx, &mut k, &hv, format!("type int\nwidth {}\nvalues {}\n", hw, list64(&hvals)));
        }
        // Integer vector of some width (content from the generator, truncated as the format demands).
        let width = 1 + (i + ctx.shard * 7) % 64;
        let len = match i % 4 { 0 => 0, 1 => 1, 2 => 64 / width + 1, _ => rng.below(500) };
        let mut iv = IntVector::new(width).unwrap();
        let mut values: Vec<u64> = Vec::new();
        for _ in 0..len { let v = rng.next_u64(); iv.push(v); values.push(if width == 64 { v } else { v & ((1u64 << width) - 1) }); }
        emit(ctx, &mut k, &iv, format!("type int\nwidth {}\nvalues {}\n", width, list64(&values)));
        // Sparse vectors: the same bits, and a (n, m) pair aimed at a particular low width.
        if let Ok(sv) = mk::sparse_set(n, &m.ones) {
            emit(ctx, &mut k, &sv, format!("type sparse\nn {}\nones {}\n", n, list(&m.ones)));
        }
        let w = 1 + (i * 5 + ctx.shard) % 63;
        let max_m = if w >= 63 { 1 } else { std::cmp::max(1, std::cmp::min(2000usize, (0.69 * (2.0f64).powi(64 - w as i32)) as usize)) };
        let mt = 1 + rng.below(max_m);
        if let Some(un) = universe_for(&mut rng, w, mt) {
            let pos = gen::sparse_positions(&mut rng, un, mt, predict_width(un, mt), gen::LAYOUTS[i % 6]);
            if let Ok(sv) = mk::sparse_set(un, &pos) {
                emit(ctx, &mut k, &sv, format!("type sparse\nn {}\nones {}\n", un, list(&pos)));
            }
        }
        if n > 0 && i % 3 == 0 {
            let mut dup: Vec<usize> = Vec::new();
            for &p in m.ones.iter().take(3000) { dup.push(p); if rng.chance(1, 3) { dup.push(p); } }
            if let Ok(ms) = mk::multiset_set(n, &dup) {
                emit(ctx, &mut k, &ms, format!("type sparse\nn {}\nones {}\n", n, list(&dup)));
                // Plain bitvectors produced by conversions (out of a multiset: every duplicate sets its bit once).
                if let Ok(cv) = guard(|| BitVector::from(ms.clone())) {
                    emit(ctx, &mut k, &cv, format!("type bitvector\nn {}\nsupports 0 0 0\nones {}\n", n, list(&m.ones.iter().copied().take(3000).collect::<Vec<usize>>())));
                }
            }
            if let Ok(sv) = mk::sparse_set(n, &m.ones) {
                if let Ok(cv) = guard(|| BitVector::from(sv)) { emit(ctx, &mut k, &cv, format!("type bitvector\nn {}\nsupports 0 0 0\nones {}\n", n, list(&m.ones))); }
            }
            if let Ok(rv) = mk::rl_runs(n, &m.runs()) {
                if let Ok(cv) = guard(|| BitVector::from(rv)) { emit(ctx, &mut k, &cv, format!("type bitvector\nn {}\nsupports 0 0 0\nones {}\n", n, list(&m.ones))); }
            }
        }
        // Run-length vectors: the same bits, and run lists by code-unit profile.
        if let Ok(rv) = mk::rl_runs(n, &m.runs()) {
            let flat: Vec<usize> = m.runs().iter().flat_map(|r| [r.0, r.1]).collect();
            emit(ctx, &mut k, &rv, format!("type rl\nn {}\nruns {}\n", n, list(&flat)));
        }
        let target = match i % 4 { 0 => 0, 1 => 1 + rng.below(40), 2 => 250 + rng.below(300), _ => rng.below(2500) };
        let runs = gen_runs(&mut rng, target, i % 6, 1usize << 62, i % 2 == 0);
        let end = runs.last().map(|r| r.0 + r.1).unwrap_or(0);
        let rn = end + if rng.chance(1, 2) { 0 } else { rng.below(1000) };
        let rm = RunModel::new(rn, &runs);
        if let Ok(rv) = mk::rl_runs_split(rn, &rm.runs, &mut rng) {
            let flat: Vec<usize> = rm.runs.iter().flat_map(|r| [r.0, r.1]).collect();
            emit(ctx, &mut k, &rv, format!("type rl\nn {}\nruns {}\n", rn, list(&flat)));
        }
        // Directed: the final block ends with exactly `target` code units used (58..=64), after 0..2 earlier blocks.
        {
            let target = 58 + (i + ctx.shard) % 7;
            let mut druns: Vec<(usize, usize)> = Vec::new();
            let mut pos = 0usize;
            let mut add = |units: usize, druns: &mut Vec<(usize, usize)>, pos: &mut usize| {
                // 2 units: gap 1..7, length 1..8; 3 units: length 9..64 (two units for length - 1).
                let gap = 1 + (druns.len() % 7);
                let l = if units == 2 { 1 + druns.len() % 8 } else { 9 + druns.len() % 50 };
                druns.push((*pos + gap, l));
                *pos += gap + l;
            };
            for _ in 0..((i / 7) % 3) { for _ in 0..32 { add(2, &mut druns, &mut pos); } }   // full 64-unit blocks
            let threes = target % 2 + 2 * ((i / 3) % 3);                                          // parity and a few more
            let twos = (target - 3 * threes) / 2;
            if 3 * threes + 2 * twos == target {
                for _ in 0..threes { add(3, &mut druns, &mut pos); }
                for _ in 0..twos { add(2, &mut druns, &mut pos); }
                let dn = pos + (i % 2) * 17;
                let dm = RunModel::new(dn, &druns);
                if let Ok(rv) = mk::rl_runs(dn, &dm.runs) {
                    let flat: Vec<usize> = dm.runs.iter().flat_map(|r| [r.0, r.1]).collect();
                    emit(ctx, &mut k, &rv, format!("type rl\nn {}\nruns {}\n", dn, list(&flat)));
                    ctx.count(&format!("written.rl.final_block_units.{}", target), 1);
                }
            }
        }
        // Wavelet matrix and core.
        let wwidth = 1 + rng.below(12);
        let wlen = match i % 4 { 0 => 0, 1 => 1 + rng.below(5), 2 => 64, _ => rng.below(700) };
        let (alpha, skew) = (rng.below(6), rng.below(4));
        let v = gen_vector(&mut rng, wwidth, wlen, alpha, skew);
        emit(ctx, &mut k, &WaveletMatrix::from(v.clone()), format!("type wm\nvalues {}\n", list64(&v)));
        if !v.is_empty() { emit(ctx, &mut k, &WMCore::from(v.clone()), format!("type wmcore\nvalues {}\n", list64(&v))); }
        // The same kinds as the body of a present optional structure (its first element is the size of the body), incl.
        // wavelet matrices whose levels differ in size (thousands of items, skewed: the supports of a level depend on its bits).
        if i % 3 == 0 {
            emit(ctx, &mut k, &Some(WaveletMatrix::from(v.clone())), format!("type wm\noption 1\nvalues {}\n", list64(&v)));
            if !v.is_empty() { emit(ctx, &mut k, &Some(WMCore::from(v.clone())), format!("type wmcore\noption 1\nvalues {}\n", list64(&v))); }
            let big: Vec<u64> = (0..(2000 + rng.below(3500))).map(|j| if j == 777 { 4 } else if rng.chance(1, 50) { 3 } else { rng.below(3) as u64 }).collect();
            emit(ctx, &mut k, &Some(WaveletMatrix::from(big.clone())), format!("type wm\noption 1\nvalues {}\n", list64(&big)));
            emit(ctx, &mut k, &Some(WMCore::from(big.clone())), format!("type wmcore\noption 1\nvalues {}\n", list64(&big)));
            if let Ok(sv) = mk::sparse_set(n, &m.ones) { emit(ctx, &mut k, &Some(sv), format!("type sparse\noption 1\nn {}\nones {}\n", n, list(&m.ones))); }
            if let Ok(rv) = mk::rl_runs(n, &m.runs()) { let flat: Vec<usize> = m.runs().iter().flat_map(|r| [r.0, r.1]).collect(); emit(ctx, &mut k, &Some(rv), format!("type rl\noption 1\nn {}\nruns {}\n", n, list(&flat))); }
            let mut obv = mk::bv_set_bit(&bits);
            mk::enable_all(&mut obv);
            emit(ctx, &mut k, &Some(obv), format!("type bitvector\noption 1\nn {}\nsupports 1 1 1\nones {}\n", n, list(&m.ones)));
        }
        // Basic structures.
        let blen = rng.below(40);
        let bytes: Vec<u8> = (0..blen).map(|_| rng.next_u64() as u8 | 0x80).collect();
        emit(ctx, &mut k, &bytes, format!("type bytes\nhex {}\n", hex(&bytes)));
        let st: String = (0..blen).map(|j| if j % 6 == 5 { 'ö' } else { (b'a' + (j % 26) as u8) as char }).collect();
        emit(ctx, &mut k, &st, format!("type string\nhex {}\n", hex(st.as_bytes())));
        let vu: Vec<u64> = (0..rng.below(30)).map(|_| rng.next_u64()).collect();
        emit(ctx, &mut k, &vu, format!("type vec_u64\nvalues {}\n", list64(&vu)));
        let vp: Vec<(u64, u64)> = (0..rng.below(20)).map(|_| (rng.next_u64(), rng.next_u64())).collect();
        let flat: Vec<u64> = vp.iter().flat_map(|p| [p.0, p.1]).collect();
        emit(ctx, &mut k, &vp, format!("type vec_pair\nvalues {}\n", list64(&flat)));
        let opt: Option<Vec<u64>> = if i % 3 == 0 { None } else { Some(vu.clone()) };
        emit(ctx, &mut k, &opt, format!("type option_vec_u64\nnone {}\nvalues {}\n", opt.is_none() as u8, list64(&vu)));
        ctx.sample(|| format!("write: case group {}: BitVector(len {}, supports {:03b}), RawVector, IntVector(width {}), SparseVector x3, RLVector x2, WaveletMatrix, WMCore, bytes, string, vectors, option -> .bin + model content .txt", i, n, subset, width));
    }
    ctx.count("written.files", k as u64);
}

//-----------------------------------------------------------------------------

fn parse(path: &str) -> BTreeMap<String, String> {
    let mut m = BTreeMap::new();
    if let Ok(text) = std::fs::read_to_string(path) {
        for line in text.lines() {
            if let Some(p) = line.find(' ') { m.insert(line[..p].to_string(), line[p + 1..].to_string()); } else if !line.is_empty() { m.insert(line.to_string(), String::new()); }
        }
    }
    m
}

fn nums(s: Option<&String>) -> Vec<usize> {
    s.map(|x| x.split_whitespace().filter_map(|t| t.parse::<usize>().ok()).collect()).unwrap_or_default()
}

fn read_cases(ctx: &mut Ctx) {
    let mut names: Vec<String> = std::fs::read_dir(&ctx.dir).map(|rd| rd.filter_map(|e| e.ok()).map(|e| e.file_name().to_string_lossy().to_string()).filter(|n| n.starts_with("r_") && n.ends_with(".txt")).collect()).unwrap_or_default();
    names.sort();
    if names.is_empty() { ctx.inconclusive(format!("no reader-direction cases in {}", ctx.dir)); return; }
    for (i, name) in names.iter().enumerate() {
        if !ctx.mine(i as u64) { continue; }
        if !ctx.begin_case() { continue; }
        let base = format!("{}/{}", ctx.dir, &name[..name.len() - 4]);
        let content = parse(&format!("{}.txt", base));
        let bytes = match std::fs::read(format!("{}.bin", base)) { Ok(b) => b, Err(e) => { ctx.inconclusive(format!("{}: {}", base, e)); continue; } };
        let t = content.get("type").cloned().unwrap_or_default();
        let mut rng: Rng = ctx.rng(0xC07_800 + i as u64);
        ctx.count(&format!("read.{}", t), 1);
        let opts = QOpts { iter_limit: 3000, ..QOpts::default() };
        let wrapped = content.get("wrap").map(|w| w == "option").unwrap_or(false);
        if wrapped { ctx.count("read.as_option_body", 1); }
        macro_rules! load {
            ($T:ty, $sig:expr) => {
                // The same structure either bare or (every third file) as the body of an optional structure.
                match guard(|| { let mut r: &[u8] = &bytes; let x = if wrapped { <Option<$T>>::load(&mut r) } else { <$T>::load(&mut r).map(Some) }; (x, r.len()) }) {
                    Ok((Ok(Some(x)), left)) => {
                        ctx.checks += 1;
                        if left != 0 { ctx.violation(&format!("foreign.{}.consumed", $sig), format!("{} bytes left after loading {}", left, base)); }
                        // The same file followed by more data, through a reader that hands out a few bytes at a time (as a pipe,
                        // a socket or a decompressor would): the same value, and the reader left exactly behind the structure.
                        let mut stream = bytes.clone();
                        stream.extend_from_slice(&0x5E471E1u64.to_le_bytes());
                        let again = guard(|| { let mut r = crate::drivers::c06::ShortReader { data: &stream, pos: 0, tick: bytes.len() + base.len() }; let y = if wrapped { <Option<$T>>::load(&mut r) } else { <$T>::load(&mut r).map(Some) }; (y.map(|y| y.map(|y| { let mut a: Vec<u8> = Vec::new(); let mut b: Vec<u8> = Vec::new(); let _ = y.serialize(&mut a); let _ = x.serialize(&mut b); a == b })).map_err(|e| e.to_string()), r.pos) });
                        ctx.checks += 1;
                        match again {
                            Ok((Ok(Some(true)), pos)) if pos == bytes.len() => {},
                            other => ctx.violation(&format!("foreign.{}.short_reads", $sig), format!("loading {} ({}) through a reader that returns short counts: {:?} (expected the same value and the reader at byte {})", base, content_summary(&content), other, bytes.len())),
                        }
                        Some(x)
                    },
                    Ok((Ok(None), _)) => { ctx.violation(&format!("foreign.{}.option_none", $sig), format!("document-conformant optional structure {} ({}) was loaded as None", base, content_summary(&content))); None },
                    Ok((Err(e), _)) => { ctx.violation(&format!("foreign.{}.rejected", $sig), format!("document-conformant file {}{} ({}) was rejected: {}", base, if wrapped { " (an optional structure)" } else { "" }, content_summary(&content), e)); None },
                    Err(p) => { ctx.violation(&format!("foreign.{}.load!panic", $sig), format!("loading {} ({}) panicked: {}", base, content_summary(&content), p)); None },
                }
            };
        }
        match t.as_str() {
            "raw" => {
                let n: usize = content["n"].parse().unwrap();
                let ones = nums(content.get("ones"));
                if let Some(raw) = load!(RawVector, "raw") {
                    let got = guard(|| (raw.len(), raw.count_ones(), (0..n).filter(|i| raw.bit(*i)).collect::<Vec<usize>>()));
                    ctx.expect_eq("foreign.raw.content", || format!("content of {}", base), &got, &(n, ones.len(), ones.clone()));
                }
            },
            "int" => {
                let width: usize = content["width"].parse().unwrap();
                let values: Vec<u64> = content.get("values").map(|x| x.split_whitespace().filter_map(|t| t.parse::<u64>().ok()).collect()).unwrap_or_default();
                if let Some(iv) = load!(IntVector, "int") {
                    let got = guard(|| (iv.width(), iv.iter().collect::<Vec<u64>>()));
                    ctx.expect_eq("foreign.int.content", || format!("content of {}", base), &got, &(width, values.clone()));
                }
            },
            "bitvector" => {
                let n: usize = content["n"].parse().unwrap();
                let m = SetModel::new(n, nums(content.get("ones")));
                if let Some(mut bv) = load!(BitVector, "bitvector") {
                    ctx.expect_eq("foreign.bitvector.supports", || format!("supports after loading {} (none were written)", base), &guard(|| (simple_sds::ops::Rank::supports_rank(&bv), simple_sds::ops::Select::supports_select(&bv), simple_sds::ops::SelectZero::supports_select_zero(&bv))), &(false, false, false));
                    if guard(|| mk::enable_all(&mut bv)).is_err() { ctx.violation("foreign.bitvector.enable!panic", base.clone()); continue; }
                    let mut around: Vec<usize> = m.ones.iter().copied().step_by(std::cmp::max(1, m.ones.len() / 60)).collect();
                    for _ in 0..30 { around.push(rng.below(n + 1)); }
                    let args = if n <= 2000 { QArgs::all(n, m.count_ones(), m.count_zeros(), 3) } else { QArgs::around(&m, &around, false) };
                    check_bv("foreign.bitvector", &bv, &m, &args, &opts, ctx);
                }
            },
            "sparse" => {
                let n: usize = content["n"].parse().unwrap();
                let width: usize = content.get("width").and_then(|w| w.parse().ok()).unwrap_or(0);
                let multiset = content.get("multiset").map(|x| x == "1").unwrap_or(false);
                let m = SetModel::new(n, nums(content.get("ones")));
                ctx.count(&format!("read.sparse.width.{}", width), 1);
                if let Some(sv) = load!(SparseVector, &format!("sparse.w{}", if width == 64 { "64" } else { "1-63" })) {
                    let mut around: Vec<usize> = m.ones.iter().copied().step_by(std::cmp::max(1, m.ones.len() / 60)).collect();
                    for _ in 0..20 { around.push(rng.range(0, n)); }
                    let args = if n <= 2000 { let mut a = QArgs::all(n, m.count_ones(), m.count_zeros(), 3); a.idx.extend(QArgs::extremes()); a.dedup() } else { QArgs::around(&m, &around, true) };
                    let o = QOpts { zero_side: !multiset, ..opts.clone() };
                    // The signature names the width class, so that a finding on one class cannot hide another.
                    let label = if width == 64 { "foreign.sparse.w64" } else { "foreign.sparse" };
                    check_bv(label, &sv, &m, &args, &o, ctx);
                    ctx.expect_eq("foreign.sparse.is_multiset", || format!("is_multiset() on {}", base), &guard(|| sv.is_multiset()), &m.is_multiset());
                }
            },
            "rl" => {
                let n: usize = content["n"].parse().unwrap();
                let flat = nums(content.get("runs"));
                let runs: Vec<(usize, usize)> = (0..flat.len() / 2).map(|j| (flat[2 * j], flat[2 * j + 1])).collect();
                let m = RunModel::new(n, &runs);
                if let Some(rv) = load!(RLVector, "rl") {
                    let around: Vec<usize> = m.runs.iter().step_by(std::cmp::max(1, m.runs.len() / 60)).flat_map(|r| [r.0, r.0 + (r.1 - 1)]).collect();
                    let args = if n <= 2000 { let mut a = QArgs::all(n, m.count_ones(), m.count_zeros(), 3); a.idx.extend(QArgs::extremes()); a.dedup() } else { QArgs::around(&m, &around, true) };
                    check_bv("foreign.rl", &rv, &m, &args, &opts, ctx);
                    check_run_iter(ctx, &rv, &m, 5000);
                    ctx.expect_eq("foreign.rl.len", || format!("len() on {}", base), &guard(|| rv.len()), &n);
                }
            },
            "wm" | "wmcore" => {
                let v: Vec<u64> = content.get("values").map(|x| x.split_whitespace().filter_map(|t| t.parse::<u64>().ok()).collect()).unwrap_or_default();
                let idx: Vec<usize> = if v.len() <= 100 { (0..v.len() + 3).collect() } else { let mut x: Vec<usize> = (0..20).map(|_| rng.below(v.len() + 2)).collect(); x.extend_from_slice(&[0, v.len() - 1, v.len(), v.len() + 1]); x.sort_unstable(); x.dedup(); x };
                let mut values: Vec<u64> = v.iter().copied().take(8).collect();
                let max = v.iter().copied().max().unwrap_or(0);
                values.extend_from_slice(&[0, 1, max, max + 1, max * 2 + 1]);
                values.sort_unstable(); values.dedup();
                if t == "wm" {
                    if let Some(wm) = load!(WaveletMatrix, "wm") { check_wm(ctx, &wm, &v, &idx, &values, "foreign"); }
                } else if let Some(core) = load!(WMCore, "wmcore") { check_core(ctx, &core, &v, &idx, &values, "foreign"); }
            },
            "bytes" | "string" => {
                let hexs = content.get("hex").cloned().unwrap_or_default();
                let want: Vec<u8> = (0..hexs.len() / 2).filter_map(|i| u8::from_str_radix(&hexs[2 * i..2 * i + 2], 16).ok()).collect();
                if t == "bytes" {
                    if let Some(v) = load!(Vec<u8>, "bytes") { ctx.expect_eq("foreign.bytes.content", || format!("content of {}", base), &Ok(v), &want); }
                } else if let Some(v) = load!(String, "string") { ctx.expect_eq("foreign.string.content", || format!("content of {}", base), &Ok(v.into_bytes()), &want); }
            },
            _ => ctx.inconclusive(format!("unknown case type {} in {}", t, base)),
        }
        ctx.case(hash64(&[7, hash_bytes(&bytes)]), true);
        ctx.sample(|| format!("read: {} ({}, {} bytes) produced from the document's rules, loaded with the real loader and queried against the model", name, content_summary(&content), bytes.len()));
    }
}

fn content_summary(c: &BTreeMap<String, String>) -> String {
    let mut s = format!("type {}", c.get("type").cloned().unwrap_or_default());
    for k in ["n", "width", "multiset"] { if let Some(v) = c.get(k) { let _ = write!(s, " {}={}", k, v); } }
    s
}
