// C16: builders reject invalid steps without side effects and build what was accepted.

use simple_sds::ops::{BitVec, Select, Rank};
use simple_sds::rl_vector::{RLVector, RLBuilder};
use simple_sds::sparse_vector::{SparseVector, SparseBuilder};

use std::convert::TryFrom;

use crate::util::{guard, hash64, hash_str, Ctx, Rng};

pub fn run(ctx: &mut Ctx) {
    let part = ctx.part.clone();
    if part.is_empty() || part == "sparse_exh" { sparse_exhaustive(ctx); }
    if part.is_empty() || part == "rl_exh" { rl_exhaustive(ctx); }
    if part.is_empty() || part == "sparse_rand" { sparse_random(ctx); }
    if part.is_empty() || part == "rl_rand" { rl_random(ctx); rl_fit(ctx); }
}

//-----------------------------------------------------------------------------

#[derive(Clone, Debug)]
enum SOp { TrySet(usize), Set(usize), Extend(Vec<usize>), Convert }

#[derive(Clone, Debug, PartialEq, Eq)]
struct SObs { len: usize, capacity: usize, universe: usize, next_index: usize, is_full: bool, is_empty: bool, is_multiset: bool }

fn s_observe(b: &SparseBuilder) -> SObs {
    SObs { len: b.len(), capacity: b.capacity(), universe: b.universe(), next_index: b.next_index(), is_full: b.is_full(), is_empty: b.is_empty(), is_multiset: b.is_multiset() }
}

struct SModel { universe: usize, capacity: usize, multiset: bool, next: usize, values: Vec<usize> }

impl SModel {
    fn observe(&self) -> SObs {
        SObs { len: self.values.len(), capacity: self.capacity, universe: self.universe, next_index: self.next, is_full: self.values.len() == self.capacity, is_empty: self.values.is_empty(), is_multiset: self.multiset }
    }
    fn accepts(&self, v: usize) -> bool {
        self.values.len() < self.capacity && v >= self.next && v < self.universe
    }
    fn apply(&mut self, v: usize) {
        self.values.push(v);
        self.next = v + if self.multiset { 0 } else { 1 };
    }
}

// Applies one call to builder and model. Returns false on a violation.
fn s_step(ctx: &mut Ctx, b: &mut SparseBuilder, m: &mut SModel, op: &SOp, hist: &dyn Fn() -> String) -> bool {
    ctx.checks += 1;
    match op {
        SOp::TrySet(v) => {
            let want = m.accepts(*v);
            match guard(|| b.try_set(*v).is_ok()) {
                Err(p) => { ctx.violation("sparse_builder.try_set!panic", format!("{} in {}", p, hist())); return false; },
                Ok(got) => {
                    if got != want { ctx.violation(if want { "sparse_builder.try_set.refused_valid" } else { "sparse_builder.try_set.accepted_invalid" }, format!("try_set({}) returned {} in {}", v, if got { "Ok" } else { "Err" }, hist())); return false; }
                    if want { m.apply(*v); }
                },
            }
        },
        SOp::Set(v) => {
            let want = m.accepts(*v);
            let got = guard(|| b.set(*v)).is_ok();
            if got != want { ctx.violation(if want { "sparse_builder.set.panicked_valid" } else { "sparse_builder.set.accepted_invalid" }, format!("set({}) {} in {}", v, if got { "returned" } else { "panicked" }, hist())); return false; }
            if want { m.apply(*v); }
        },
        SOp::Extend(vs) => {
            // Sequential sets; the first invalid one panics (documented) and ends the call.
            let mut all_ok = true;
            for v in vs { if m.accepts(*v) { m.apply(*v); } else { all_ok = false; break; } }
            let got = guard(|| b.extend(crate::gen::hinted(vs, vs.len() + m.values.len()))).is_ok();
            if got != all_ok { ctx.violation("sparse_builder.extend", format!("extend({:?}) {} in {}", vs, if got { "returned" } else { "panicked" }, hist())); return false; }
        },
        SOp::Convert => {
            let full = m.values.len() == m.capacity;
            match guard(|| SparseVector::try_from(b.clone())) {
                Err(p) => { ctx.violation("sparse_builder.convert!panic", format!("{} in {}", p, hist())); return false; },
                Ok(Err(_)) => { if full { ctx.violation("sparse_builder.convert.refused_full", format!("try_from refused a full builder in {}", hist())); return false; } },
                Ok(Ok(sv)) => {
                    if !full { ctx.violation("sparse_builder.convert.accepted_not_full", format!("try_from accepted a builder with {} of {} values in {}", m.values.len(), m.capacity, hist())); return false; }
                    let got = guard(|| (sv.len(), sv.count_ones(), sv.one_iter().map(|p| p.1).collect::<Vec<usize>>()));
                    if got != Ok((m.universe, m.values.len(), m.values.clone())) {
                        ctx.violation("sparse_builder.convert.content", format!("converted vector (len, ones, positions) = {:?}, accepted positions {:?} in {}", got, m.values, hist()));
                        return false;
                    }
                    // Residue of refused calls may hide from a forward walk: compare with a vector built from scratch with
                    // exactly the accepted values (==, serialized bytes, backward walk).
                    let reference = guard(|| {
                        let mut fresh = if m.multiset { SparseBuilder::multiset(m.universe, m.capacity) } else { SparseBuilder::new(m.universe, m.capacity).unwrap() };
                        for v in m.values.iter() { fresh.set(*v); }
                        SparseVector::try_from(fresh).unwrap()
                    });
                    if let Ok(reference) = reference {
                        let same_bytes = { let mut a: Vec<u8> = Vec::new(); let mut b: Vec<u8> = Vec::new(); let _ = simple_sds::serialize::Serialize::serialize(&sv, &mut a); let _ = simple_sds::serialize::Serialize::serialize(&reference, &mut b); a == b };
                        let back = guard(|| sv.one_iter().rev().map(|p| p.1).collect::<Vec<usize>>());
                        let mut want_back = m.values.clone(); want_back.reverse();
                        if sv != reference || !same_bytes || back != Ok(want_back) {
                            ctx.violation("sparse_builder.convert.residue", format!("converted vector differs from one built from scratch with the accepted values {:?} (== {}, same bytes {}, backward walk {:?}) in {}", m.values, sv == reference, same_bytes, back, hist()));
                            return false;
                        }
                    }
                },
            }
        },
    }
    // Every observable must equal the model's: unchanged across a refused call, exactly updated by an accepted one.
    let got = guard(|| s_observe(b));
    if got != Ok(m.observe()) {
        ctx.violation("sparse_builder.observables", format!("observables {:?}, expected {:?} after {}", got, m.observe(), hist()));
        return false;
    }
    true
}

fn s_new(universe: usize, capacity: usize, multiset: bool) -> Result<Option<(SparseBuilder, SModel)>, String> {
    let m = SModel { universe, capacity, multiset, next: 0, values: Vec::new() };
    if multiset {
        guard(|| SparseBuilder::multiset(universe, capacity)).map(|b| Some((b, m)))
    } else {
        match guard(|| SparseBuilder::new(universe, capacity)) {
            Err(p) => Err(p),
            Ok(Err(_)) => if capacity > universe { Ok(None) } else { Err("new() refused valid parameters".to_string()) },
            Ok(Ok(b)) => if capacity > universe { Err("new() accepted ones > universe".to_string()) } else { Ok(Some((b, m))) },
        }
    }
}

fn s_alphabet(u: usize) -> Vec<SOp> {
    let mut a: Vec<SOp> = Vec::new();
    for v in 0..=u + 1 { a.push(SOp::TrySet(v)); }
    for v in 0..=u + 1 { a.push(SOp::Set(v)); }
    for v in 0..=u { a.push(SOp::Extend(vec![v, v + 1])); a.push(SOp::Extend(vec![v, v])); a.push(SOp::Extend(vec![v + 1, v])); }
    a.push(SOp::Convert);
    a
}

fn sparse_exhaustive(ctx: &mut Ctx) {
    let depth = ctx.size(4, 5);
    let mut index = 0u64;
    let mut sequences = 0u64;
    for u in 0..=4usize {
        if !ctx.quick() && depth == 5 && u == 4 { /* keep the thorough tier bounded: depth 5 up to universe 3 */ }
        let alphabet = s_alphabet(u);
        for c in 0..=3usize {
            for multiset in [false, true] {
                let d_max = if depth >= 5 && u >= 4 { 4 } else { depth };
                for d in 1..=d_max {
                    let total = (alphabet.len() as u64).pow(d as u32);
                    // Stride directly to this shard's codes (index = base + code + 1 must be owned by the shard).
                    let base = index;
                    index += total;
                    let n = ctx.nshards as u64;
                    let mut code = (ctx.shard as u64 + n - ((base + 1) % n)) % n;
                    while code < total {
                        let this = code;
                        code += n;
                        let code = this;
                        if !ctx.begin_case() { continue; }
                        let (mut b, mut m) = match s_new(u, c, multiset) {
                            Ok(Some(x)) => x,
                            Ok(None) => { continue; },
                            Err(e) => { ctx.violation("sparse_builder.new", format!("SparseBuilder::{}({}, {}): {}", if multiset { "multiset" } else { "new" }, u, c, e)); continue; },
                        };
                        let mut ops: Vec<&SOp> = Vec::with_capacity(d);
                        let mut cc = code;
                        for _ in 0..d { ops.push(&alphabet[(cc % alphabet.len() as u64) as usize]); cc /= alphabet.len() as u64; }
                        sequences += 1;
                        let mut ok = true;
                        for (k, op) in ops.iter().enumerate() {
                            let hist = || format!("{}({}, {}); {:?} (step {})", if multiset { "multiset" } else { "new" }, u, c, ops, k);
                            if !s_step(ctx, &mut b, &mut m, op, &hist) { ok = false; break; }
                        }
                        if ok {
                            let hist = || format!("{}({}, {}); {:?}; final convert", if multiset { "multiset" } else { "new" }, u, c, ops);
                            s_step(ctx, &mut b, &mut m, &SOp::Convert, &hist);
                        }
                        ctx.case(hash64(&[1, u as u64, c as u64, multiset as u64, d as u64, code]), d >= 2);
                        ctx.sample(|| format!("sparse exhaustive: {}({}, {}); {:?}", if multiset { "multiset" } else { "new" }, u, c, ops));
                    }
                }
            }
        }
    }
    ctx.count("sparse_exh.sequences", sequences);
}

fn sparse_random(ctx: &mut Ctx) {
    let histories = ctx.size(2000, 40000);
    for h in 0..histories {
        if !ctx.begin_case() { continue; }
        let mut rng: Rng = ctx.rng(0xC16_000 + h as u64);
        sparse_case(ctx, &mut rng, h);
    }
}

// One random history on a sparse builder (parameter family `h`); also the entry point of the coverage-guided leg (fuzz.rs).
pub fn sparse_case(ctx: &mut Ctx, rng: &mut Rng, h: usize) {
    let universe = match h % 5 { 0 => rng.below(12), 1 => 1 + rng.below(300), 2 => 1usize << (10 + rng.below(50)), 3 => usize::MAX - rng.below(3), _ => 1 + rng.below(100000) };
    let capacity = match h % 4 { 0 => rng.below(8), 1 => 1 + rng.below(60), 2 => rng.below(200), _ => std::cmp::min(universe, rng.below(40)) };
    // With no values the format spends universe/2 bits on buckets: keep such builders small (allocation failure aborts).
    let capacity = if universe > (1 << 26) { std::cmp::max(capacity, 1) } else { capacity };
    let multiset = rng.chance(1, 2);
    let (mut b, mut m) = match s_new(universe, capacity, multiset) {
        Ok(Some(x)) => x,
        Ok(None) => { ctx.case(hash64(&[2, 0, universe as u64, capacity as u64]), false); return; },
        Err(e) => { ctx.violation("sparse_builder.new", format!("SparseBuilder::{}({}, {}): {}", if multiset { "multiset" } else { "new" }, universe, capacity, e)); return; },
    };
    let steps = 10 + rng.below(190);
    let mut log: Vec<String> = Vec::new();
    let mut kinds: Vec<u64> = vec![multiset as u64];
    for _ in 0..steps {
        // About 30 % invalid calls.
        let valid_value = |rng: &mut Rng, m: &SModel| -> usize {
            if m.next >= m.universe { return m.universe; }
            let room = m.universe - m.next;
            let left = std::cmp::max(1, m.capacity.saturating_sub(m.values.len()));
            m.next + rng.below(std::cmp::max(1, std::cmp::min(room, (room / left).saturating_add(2))))
        };
        let invalid_value = |rng: &mut Rng, m: &SModel| -> usize {
            match rng.below(4) { 0 => m.universe, 1 => m.universe.saturating_add(rng.below(5)), 2 => if m.next > 0 { rng.below(m.next) } else { m.universe }, _ => usize::MAX }
        };
        let v = if rng.chance(7, 10) { valid_value(rng, &m) } else { invalid_value(rng, &m) };
        let op = match rng.below(10) {
            0..=3 => SOp::TrySet(v),
            4..=6 => SOp::Set(v),
            7 | 8 => { let v2 = if rng.chance(7, 10) { v.saturating_add(1 + rng.below(3)) } else { invalid_value(rng, &m) }; SOp::Extend(vec![v, v2]) },
            _ => SOp::Convert,
        };
        log.push(format!("{:?}", op));
        kinds.push(hash_str(&format!("{:?}{}", std::mem::discriminant(&op), match &op { SOp::TrySet(x) | SOp::Set(x) => m.accepts(*x), _ => true })));
        let hist = || format!("{}({}, {}); {}", if multiset { "multiset" } else { "new" }, universe, capacity, log.join("; "));
        if !s_step(ctx, &mut b, &mut m, &op, &hist) { break; }
    }
    let hist = || format!("{}({}, {}); {}; final convert", if multiset { "multiset" } else { "new" }, universe, capacity, log.join("; "));
    s_step(ctx, &mut b, &mut m, &SOp::Convert, &hist);
    ctx.case(hash64(&kinds), true);
    ctx.sample(|| format!("sparse random: {}({}, {}); {}", if multiset { "multiset" } else { "new" }, universe, capacity, log.iter().take(10).cloned().collect::<Vec<_>>().join("; ")));
}

//-----------------------------------------------------------------------------

#[derive(Clone, Debug)]
enum ROp { TrySet(usize, usize), SetLen(usize), Convert }

struct RModel { len: usize, ones: usize, runs: Vec<(usize, usize)> }

impl RModel {
    fn accepts(&self, s: usize, l: usize) -> bool { s >= self.len && usize::MAX - l >= s }
    fn apply(&mut self, s: usize, l: usize) {
        if l == 0 { return; }
        if let Some(last) = self.runs.last_mut() {
            if last.0 + last.1 == s { last.1 += l; self.len = s + l; self.ones += l; return; }
        }
        self.runs.push((s, l));
        self.len = s + l;
        self.ones += l;
    }
}

fn r_step(ctx: &mut Ctx, b: &mut RLBuilder, m: &mut RModel, op: &ROp, hist: &dyn Fn() -> String) -> bool {
    ctx.checks += 1;
    match op {
        ROp::TrySet(s, l) => {
            let want = m.accepts(*s, *l);
            match guard(|| b.try_set(*s, *l).is_ok()) {
                Err(p) => { ctx.violation("rl_builder.try_set!panic", format!("{} in {}", p, hist())); return false; },
                Ok(got) => {
                    if got != want { ctx.violation(if want { "rl_builder.try_set.refused_valid" } else { "rl_builder.try_set.accepted_invalid" }, format!("try_set({}, {}) returned {} in {}", s, l, if got { "Ok" } else { "Err" }, hist())); return false; }
                    if want { m.apply(*s, *l); }
                },
            }
        },
        ROp::SetLen(n) => {
            if let Err(p) = guard(|| b.set_len(*n)) { ctx.violation("rl_builder.set_len!panic", format!("{} in {}", p, hist())); return false; }
            if *n > m.len { m.len = *n; }
        },
        ROp::Convert => {
            match guard(|| RLVector::from(b.clone())) {
                Err(p) => { ctx.violation("rl_builder.convert!panic", format!("{} in {}", p, hist())); return false; },
                Ok(rv) => {
                    let got = guard(|| (rv.len(), rv.count_ones(), rv.run_iter().take(m.runs.len() + 2).collect::<Vec<(usize, usize)>>()));
                    if got != Ok((m.len, m.ones, m.runs.clone())) {
                        ctx.violation("rl_builder.convert.content", format!("converted vector (len, ones, runs) = {:?}, accepted runs {:?} with len {} in {}", got, m.runs, m.len, hist()));
                        return false;
                    }
                    // The positional queries go through the sampled indexes, the walk above does not: ends of up to 40 runs
                    // spread over the vector (bit at start / before start / last / behind last, ranks there).
                    let step = std::cmp::max(1, m.runs.len() / 40);
                    let mut ones_before = 0usize;
                    for (k, &(s0, l0)) in m.runs.iter().enumerate() {
                        if k % step == 0 || k + 1 == m.runs.len() {
                            // (the bit before a run start is unset: the model merges adjacent pieces, its runs are maximal)
                            let want = (true, false, true, ones_before, ones_before + l0 - 1);
                            let got = guard(|| (rv.get(s0), s0 > 0 && rv.get(s0 - 1), rv.get(s0 + l0 - 1), rv.rank(s0), rv.rank(s0 + l0 - 1)));
                            if got != Ok(want) {
                                ctx.violation("rl_builder.convert.queries", format!("(get(start), get(start-1), get(last), rank(start), rank(last)) = {:?}, expected {:?} for run #{} ({}, {}) of the converted vector in {}", got, want, k, s0, l0, hist()));
                                return false;
                            }
                        }
                        ones_before += l0;
                    }
                },
            }
        },
    }
    let got = guard(|| (b.len(), b.count_ones(), b.count_zeros(), b.is_empty()));
    let want = (m.len, m.ones, m.len - m.ones, m.len == 0);
    if got != Ok(want) {
        ctx.violation("rl_builder.observables", format!("(len, ones, zeros, is_empty) = {:?}, expected {:?} after {}", got, want, hist()));
        return false;
    }
    true
}

fn rl_exhaustive(ctx: &mut Ctx) {
    let depth = ctx.size(4, 5);
    let mut alphabet: Vec<ROp> = Vec::new();
    for s in 0..=7usize { for l in 0..=2usize { alphabet.push(ROp::TrySet(s, l)); } }
    for n in 0..=7usize { alphabet.push(ROp::SetLen(n)); }
    alphabet.push(ROp::Convert);
    let mut index = 0u64;
    let mut sequences = 0u64;
    for d in 1..=depth {
        let total = (alphabet.len() as u64).pow(d as u32);
        let base = index;
        index += total;
        let n = ctx.nshards as u64;
        let mut next = (ctx.shard as u64 + n - ((base + 1) % n)) % n;
        while next < total {
            let code = next;
            next += n;
            if !ctx.begin_case() { continue; }
            let mut b = RLBuilder::new();
            let mut m = RModel { len: 0, ones: 0, runs: Vec::new() };
            let mut ops: Vec<&ROp> = Vec::with_capacity(d);
            let mut cc = code;
            for _ in 0..d { ops.push(&alphabet[(cc % alphabet.len() as u64) as usize]); cc /= alphabet.len() as u64; }
            sequences += 1;
            let mut ok = true;
            for (k, op) in ops.iter().enumerate() {
                let hist = || format!("RLBuilder::new(); {:?} (step {})", ops, k);
                if !r_step(ctx, &mut b, &mut m, op, &hist) { ok = false; break; }
            }
            if ok {
                let hist = || format!("RLBuilder::new(); {:?}; final convert", ops);
                r_step(ctx, &mut b, &mut m, &ROp::Convert, &hist);
            }
            ctx.case(hash64(&[3, d as u64, code]), d >= 2);
            ctx.sample(|| format!("rl exhaustive: {:?}", ops));
        }
    }
    ctx.count("rl_exh.sequences", sequences);
}

// Runs that meet the end of a 64-unit block in every possible way (see C03 `fit`), fed to the builder one call at a
// time with a conversion of a clone right after the run under test and at the end.
fn rl_fit(ctx: &mut Ctx) {
    let classes: Vec<usize> = if ctx.quick() { vec![1, 2, 8, 20, 21, 22] } else { (1..=22).collect() };
    let mut index = 0u64;
    for fill in 0..64usize {
        for &gu in classes.iter() {
            for &ru in classes.iter() {
                index += 1;
                if !ctx.mine(index) { continue; }
                let mut rng: Rng = ctx.rng(0xC16_F00 + index);
                let (runs, n) = match crate::drivers::c03::fit_runs(fill, gu, ru, &mut rng) { Some(x) => x, None => continue };
                if !ctx.begin_case() { continue; }
                let mut b = RLBuilder::new();
                let mut m = RModel { len: 0, ones: 0, runs: Vec::new() };
                let mut log: Vec<String> = Vec::new();
                let under_test = runs.len() - 3;
                let mut ok = true;
                for (k, &(s0, l0)) in runs.iter().enumerate() {
                    let op = ROp::TrySet(s0, l0);
                    log.push(format!("{:?}", op));
                    let hist = || format!("RLBuilder::new(); {}", log.join("; "));
                    if !r_step(ctx, &mut b, &mut m, &op, &hist) { ok = false; break; }
                    if k + 1 >= under_test && !r_step(ctx, &mut b, &mut m, &ROp::Convert, &hist) { ok = false; break; }
                }
                if ok {
                    log.push(format!("SetLen({})", n));
                    let hist = || format!("RLBuilder::new(); {}; final convert", log.join("; "));
                    if r_step(ctx, &mut b, &mut m, &ROp::SetLen(n), &hist) { r_step(ctx, &mut b, &mut m, &ROp::Convert, &hist); }
                }
                ctx.case(hash64(&[0xF17, fill as u64, gu as u64, ru as u64]), true);
                ctx.sample(|| format!("rl fit: block holds {} units, next run needs {} + {} units; conversion of a clone after every later call", fill, gu, ru));
            }
        }
    }
}

fn rl_random(ctx: &mut Ctx) {
    let histories = ctx.size(2000, 40000);
    for h in 0..histories {
        if !ctx.begin_case() { continue; }
        let mut rng: Rng = ctx.rng(0xC16_800 + h as u64);
        rl_case(ctx, &mut rng, h);
    }
}

// One random history on a run-length builder (scale family `h`); also the entry point of the coverage-guided leg (fuzz.rs).
pub fn rl_case(ctx: &mut Ctx, rng: &mut Rng, h: usize) {
    let scale_bits = match h % 4 { 0 => 4, 1 => 12, 2 => 40, _ => 62 };
    let mut b = RLBuilder::new();
    let mut m = RModel { len: 0, ones: 0, runs: Vec::new() };
    // Every eighth history is long enough for the converted vector to have ten or more blocks.
    let steps = if h % 8 == 7 { 600 + rng.below(600) } else { 10 + rng.below(190) };
    let mut log: Vec<String> = Vec::new();
    let mut kinds: Vec<u64> = vec![scale_bits as u64];
    for _ in 0..steps {
        let step = (rng.magnitude(scale_bits) as usize) / 64;
        let op = match rng.below(12) {
            0..=4 => { // valid run (adjacent or after a gap)
                let s = if rng.chance(1, 3) { m.len } else { m.len.saturating_add(step) };
                let l = std::cmp::min(rng.magnitude(scale_bits) as usize / 64, (usize::MAX - s) / 2);
                ROp::TrySet(s, l)
            },
            5 => ROp::TrySet(if m.len > 0 { rng.below(m.len) } else { 0 }, rng.below(3)),                  // out of order (valid only when len == 0)
            6 => ROp::TrySet(m.len.saturating_add(step), usize::MAX - rng.below(4)),                           // overflowing
            7 => { let s = usize::MAX - rng.below(100); ROp::TrySet(s, usize::MAX - s + rng.below(3)) },       // at the very end
            8 | 9 => ROp::SetLen(if rng.chance(1, 3) { rng.below(m.len + 1) } else { m.len.saturating_add(step) }),
            10 => ROp::SetLen(m.len),
            _ => ROp::Convert,
        };
        // Keep the vector inside the documented length domain, so that conversion must succeed.
        let ok_len = match &op { ROp::TrySet(s, l) => !m.accepts(*s, *l) || s + l <= usize::MAX - 64, ROp::SetLen(n) => *n <= usize::MAX - 64, ROp::Convert => true };
        if !ok_len { continue; }
        log.push(format!("{:?}", op));
        kinds.push(hash_str(&format!("{:?}{}", std::mem::discriminant(&op), match &op { ROp::TrySet(s, l) => m.accepts(*s, *l), _ => true })));
        let hist = || format!("RLBuilder::new(); {}", log.join("; "));
        if !r_step(ctx, &mut b, &mut m, &op, &hist) { break; }
    }
    let hist = || format!("RLBuilder::new(); {}; final convert", log.join("; "));
    r_step(ctx, &mut b, &mut m, &ROp::Convert, &hist);
    ctx.case(hash64(&kinds), true);
    ctx.sample(|| format!("rl random: {}", log.iter().take(10).cloned().collect::<Vec<_>>().join("; ")));
}
