// C09: queries are total: out-of-range and extreme arguments give the documented answer, the three bitvector types
// agree, constructors reject invalid widths/sizes, and none of these calls panics (in debug and in release builds).

use simple_sds::bit_vector::BitVector;
use simple_sds::int_vector::{IntVector, IntVectorWriter};
use simple_sds::ops::{Vector, Access, VectorIndex, BitVec, Select, SelectZero, PredSucc, Push, Pop};
use simple_sds::raw_vector::{RawVector, AccessRaw, PushRaw, PopRaw};
use simple_sds::serialize::{MemoryMap, MemoryMapped, MappingMode, Serialize};
use simple_sds::int_vector::IntVectorMapper;
use simple_sds::rl_vector::{RLVector, RLBuilder};
use simple_sds::sparse_vector::{SparseVector, SparseBuilder};
use simple_sds::wavelet_matrix::WaveletMatrix;
use simple_sds::wavelet_matrix::wm_core::WMCore;

use crate::gen;
use crate::mk;
use crate::models::{Model, SetModel};
use crate::mon::{check_bv, query_digest, QArgs, QOpts};
use crate::util::{guard, hash64, Ctx, Rng};

pub fn run(ctx: &mut Ctx) {
    let part = ctx.part.clone();
    if part.is_empty() || part == "bv" { bitvectors(ctx); }
    if part.is_empty() || part == "nth" { nth_extremes(ctx); }
    if part.is_empty() || part == "wm" { wavelet(ctx); }
    if part.is_empty() || part == "ctor" { constructors(ctx); }
    if part.is_empty() || part == "vec" { plain_vectors(ctx); }
}

pub fn extreme_args(len: usize) -> Vec<usize> {
    let mut v = vec![0, 1, len.saturating_sub(1), len, len.saturating_add(1), len.saturating_mul(2), (1usize << 63) - 1, 1usize << 63, (1usize << 63) + 1, usize::MAX - 1, usize::MAX];
    v.sort_unstable();
    v.dedup();
    v
}

fn instances(ctx: &Ctx, rng: &mut Rng) -> Vec<Vec<bool>> {
    let mut out: Vec<Vec<bool>> = vec![Vec::new(), vec![true], vec![false], vec![false; 77], vec![true; 77]];
    for &n in &[2usize, 63, 64, 65, 128, 511, 512, 513, 4096, 4097] {
        if cfg!(miri) && n > 130 { continue; }
        for d in [gen::Density::Sparse64, gen::Density::Half, gen::Density::Dense64, gen::Density::One1, gen::Density::AllButOne, gen::Density::Zero, gen::Density::All] {
            out.push(gen::bits(rng, n, d, gen::Shape::Uniform));
        }
    }
    for _ in 0..ctx.size(40, 600) {
        let n = 1 + rng.below(if cfg!(miri) { 150 } else { 3000 });
        let d = *rng.pick(&gen::DENSITIES);
        let s = *rng.pick(&gen::SHAPES);
        out.push(gen::bits(rng, n, d, s));
    }
    out
}

fn bitvectors(ctx: &mut Ctx) {
    let mut rng = Rng::new(ctx.seed ^ 0xC9);
    let all = instances(ctx, &mut rng);
    let opts = QOpts { iter_limit: 5000, ..QOpts::default() };
    for (k, bits) in all.iter().enumerate() {
        if !ctx.mine(k as u64) { continue; }
        if !ctx.begin_case() { continue; }
        let n = bits.len();
        let m = SetModel::from_bits(bits);
        let mut args = QArgs { idx: extreme_args(n), ranks: extreme_args(m.count_ones()) };
        args.ranks.extend(extreme_args(m.count_zeros()));
        for _ in 0..8 { args.idx.push(rng.below(n + 2)); args.ranks.push(rng.below(n + 2)); }
        let args = args.dedup();
        let mut digests: Vec<(&str, Result<u64, String>)> = Vec::new();
        match guard(|| { let mut bv = mk::bv_set_bit(bits); mk::enable_all(&mut bv); bv }) {
            Ok(bv) => { check_bv("bitvector", &bv, &m, &args, &opts, ctx); digests.push(("bitvector", query_digest(&bv, &args, true))); },
            Err(e) => ctx.violation("bitvector.construct", format!("{} on {}", e, m.describe())),
        }
        match mk::sparse_set(n, &m.ones) {
            Ok(sv) => { check_bv("sparse", &sv, &m, &args, &opts, ctx); digests.push(("sparse", query_digest(&sv, &args, true))); },
            Err(e) => ctx.violation("sparse.construct", format!("{} on {}", e, m.describe())),
        }
        match mk::rl_runs(n, &m.runs()) {
            Ok(rv) => { check_bv("rl", &rv, &m, &args, &opts, ctx); digests.push(("rl", query_digest(&rv, &args, true))); },
            Err(e) => ctx.violation("rl.construct", format!("{} on {}", e, m.describe())),
        }
        // The three types must agree with each other (same bits, same arguments, same answers).
        ctx.checks += 1;
        for w in digests.windows(2) {
            if w[0].1 != w[1].1 {
                ctx.violation("cross_type.disagree", format!("{} and {} answer differently ({:?} vs {:?}) on {}", w[0].0, w[1].0, w[0].1, w[1].1, m.describe()));
            }
        }
        ctx.case(hash64(&[1, n as u64, hash64(&m.ones.iter().map(|x| *x as u64).collect::<Vec<u64>>())]), true);
        ctx.sample(|| format!("bv: len={} ones={} x [BitVector, SparseVector, RLVector] x idx args {:?}", n, m.ones.len(), &args.idx));
    }
}

//-----------------------------------------------------------------------------

fn nth_cases(rem: usize) -> Vec<usize> {
    let mut v = vec![0, rem.saturating_sub(1), rem, rem + 1, rem.saturating_mul(2), (1usize << 63) - 1, 1usize << 63, usize::MAX - 1, usize::MAX];
    v.sort_unstable();
    v.dedup();
    v
}

fn consumed_points(total: usize) -> Vec<usize> {
    let mut v = vec![0, 1, total / 2, total.saturating_sub(1), total];
    v.retain(|k| *k <= total);
    v.sort_unstable();
    v.dedup();
    v
}

// nth(n) after consuming k items from the front: must be reference[k + n] or None; None exhausts the iterator.
fn nth_total<I>(ctx: &mut Ctx, label: &str, make: &dyn Fn() -> I, reference: &[I::Item], len_of: Option<&dyn Fn(&I) -> usize>, what: &dyn Fn() -> String)
where I: Iterator, I::Item: PartialEq + std::fmt::Debug + Clone
{
    let total = reference.len();
    for k in consumed_points(total) {
        for n in nth_cases(total - k) {
            let want: Option<I::Item> = k.checked_add(n).and_then(|p| reference.get(p).cloned());
            let want_next: Option<I::Item> = if want.is_some() { reference.get(k + n + 1).cloned() } else { None };
            let want_len = if want.is_some() { total - (k + n + 1) } else { 0 };
            let got = guard(|| {
                let mut it = make();
                for _ in 0..k { let _ = it.next(); }
                let a = it.nth(n);
                let l = len_of.map(|f| f(&it));
                let b = it.next();
                let c = it.next().is_some() && b.is_none();
                (a, l, b, c)
            });
            let cls = if n >= 1usize << 62 { "extreme" } else if want.is_none() { "past_end" } else { "inside" };
            ctx.expect_eq(&format!("{}.nth.{}", label, cls), || format!("{}: {} x next(), nth({}) -> (item, len after, next item, Some after None) on {}", label, k, n, what()),
                &got, &(want, len_of.map(|_| want_len), want_next, false));
        }
    }
}

fn nth_back_total<I>(ctx: &mut Ctx, label: &str, make: &dyn Fn() -> I, reference: &[I::Item], what: &dyn Fn() -> String)
where I: DoubleEndedIterator, I::Item: PartialEq + std::fmt::Debug + Clone
{
    let total = reference.len();
    for k in consumed_points(total) {
        for n in nth_cases(total - k) {
            // k items consumed from the back, then nth_back(n).
            let want: Option<I::Item> = k.checked_add(n).and_then(|p| if p < total { Some(reference[total - 1 - p].clone()) } else { None });
            let want_next: Option<I::Item> = if want.is_some() && k + n + 1 < total { Some(reference[total - 2 - k - n].clone()) } else { None };
            let got = guard(|| {
                let mut it = make();
                for _ in 0..k { let _ = it.next_back(); }
                let a = it.nth_back(n);
                let b = it.next_back();
                let c = it.next().is_some() && b.is_none();
                (a, b, c)
            });
            let cls = if n >= 1usize << 62 { "extreme" } else if want.is_none() { "past_end" } else { "inside" };
            ctx.expect_eq(&format!("{}.nth_back.{}", label, cls), || format!("{}: {} x next_back(), nth_back({}) -> (item, next_back item, Some after None) on {}", label, k, n, what()),
                &got, &(want, want_next, false));
        }
    }
}

// nth(n) after j items were taken from the BACK: "beyond the remainder" must be judged against what is left.
fn nth_after_back<I>(ctx: &mut Ctx, label: &str, make: &dyn Fn() -> I, reference: &[I::Item], what: &dyn Fn() -> String)
where I: DoubleEndedIterator + ExactSizeIterator, I::Item: PartialEq + std::fmt::Debug + Clone
{
    let total = reference.len();
    for j in consumed_points(total) {
        let rem = total - j;
        for n in nth_cases(rem) {
            let want: Option<I::Item> = if n < rem { Some(reference[n].clone()) } else { None };
            let want_len = if n < rem { rem - n - 1 } else { 0 };
            let got = guard(|| {
                let mut it = make();
                for _ in 0..j { let _ = it.next_back(); }
                let a = it.nth(n);
                let l = it.len();
                let b = it.next_back().is_some();
                (a, l, b)
            });
            let cls = if n >= 1usize << 62 { "extreme" } else if want.is_none() { "past_end" } else { "inside" };
            ctx.expect_eq(&format!("{}.nth_after_back.{}", label, cls), || format!("{}: {} x next_back(), nth({}) -> (item, len after, more from the back) on {}", label, j, n, what()),
                &got, &(want, want_len, want_len > 0));
        }
    }
}

// nth_back(n) after j items were taken from the FRONT, then everything else the iterator offers: len(), size_hint(),
// nth(0), next(), next_back() must all agree that it is exhausted (or continue correctly) and none may panic.
fn nth_back_after_front<I>(ctx: &mut Ctx, label: &str, make: &dyn Fn() -> I, reference: &[I::Item], what: &dyn Fn() -> String)
where I: DoubleEndedIterator + ExactSizeIterator, I::Item: PartialEq + std::fmt::Debug + Clone
{
    let total = reference.len();
    for j in consumed_points(total) {
        let rem = total - j;
        for n in nth_cases(rem) {
            let want: Option<I::Item> = if n < rem { Some(reference[total - 1 - n].clone()) } else { None };
            let want_len = if n < rem { rem - n - 1 } else { 0 };
            let want_front: Option<I::Item> = if want_len > 0 { Some(reference[j].clone()) } else { None };
            let got = guard(|| {
                let mut it = make();
                for _ in 0..j { let _ = it.next(); }
                let a = it.nth_back(n);
                let l = it.len();
                let h = it.size_hint();
                let f = it.nth(0);
                let l2 = it.len();
                (a, l, h, f, l2)
            });
            let cls = if n >= 1usize << 62 { "extreme" } else if want.is_none() { "past_end" } else { "inside" };
            ctx.expect_eq(&format!("{}.nth_back_after_front.{}", label, cls), || format!("{}: {} x next(), nth_back({}) -> (item, len, size_hint, nth(0), len) on {}", label, j, n, what()),
                &got, &(want, want_len, (want_len, Some(want_len)), want_front, want_len.saturating_sub(1)));
        }
    }
}

fn nth_extremes(ctx: &mut Ctx) {
    let mut rng = Rng::new(ctx.seed ^ 0xC9_1);
    let mut insts: Vec<Vec<bool>> = vec![Vec::new(), vec![true], vec![false], vec![true; 70], vec![false; 70]];
    for &n in &[64usize, 65, 200, 513] {
        if cfg!(miri) && n > 70 { continue; }
        for d in [gen::Density::Sparse64, gen::Density::Half, gen::Density::Dense64] { insts.push(gen::bits(&mut rng, n, d, gen::Shape::Uniform)); }
    }
    for _ in 0..ctx.size(12, 200) { let n = 1 + rng.below(if cfg!(miri) { 90 } else { 700 }); let d = *rng.pick(&gen::DENSITIES); let s = *rng.pick(&gen::SHAPES); insts.push(gen::bits(&mut rng, n, d, s)); }
    for (k, bits) in insts.iter().enumerate() {
        if !ctx.mine(k as u64) { continue; }
        if !ctx.begin_case() { continue; }
        let n = bits.len();
        let m = SetModel::from_bits(bits);
        let ones: Vec<(usize, usize)> = m.ones.iter().copied().enumerate().collect();
        let zeros: Vec<(usize, usize)> = (0..n).filter(|i| !bits[*i]).enumerate().collect();
        let what = || m.describe();
        let bv = match guard(|| { let mut bv = mk::bv_set_bit(bits); mk::enable_all(&mut bv); bv }) { Ok(x) => x, Err(e) => { ctx.violation("bitvector.construct", e); continue; } };
        let sv = match mk::sparse_set(n, &m.ones) { Ok(x) => x, Err(e) => { ctx.violation("sparse.construct", e); continue; } };
        let rv = match mk::rl_runs(n, &m.runs()) { Ok(x) => x, Err(e) => { ctx.violation("rl.construct", e); continue; } };

        // Plain bitvector.
        nth_total(ctx, "bitvector.iter", &|| bv.iter(), bits, Some(&|it| it.len()), &what);
        nth_back_total(ctx, "bitvector.iter", &|| bv.iter(), bits, &what);
        nth_total(ctx, "bitvector.one_iter", &|| bv.one_iter(), &ones, Some(&|it| it.len()), &what);
        nth_back_total(ctx, "bitvector.one_iter", &|| bv.one_iter(), &ones, &what);
        nth_after_back(ctx, "bitvector.one_iter", &|| bv.one_iter(), &ones, &what);
        nth_after_back(ctx, "bitvector.zero_iter", &|| bv.zero_iter(), &zeros, &what);
        nth_after_back(ctx, "bitvector.iter", &|| bv.iter(), bits, &what);
        nth_after_back(ctx, "sparse.one_iter", &|| sv.one_iter(), &ones, &what);
        nth_after_back(ctx, "sparse.iter", &|| sv.iter(), bits, &what);
        nth_back_after_front(ctx, "bitvector.one_iter", &|| bv.one_iter(), &ones, &what);
        nth_back_after_front(ctx, "bitvector.zero_iter", &|| bv.zero_iter(), &zeros, &what);
        nth_back_after_front(ctx, "bitvector.iter", &|| bv.iter(), bits, &what);
        nth_back_after_front(ctx, "sparse.one_iter", &|| sv.one_iter(), &ones, &what);
        nth_back_after_front(ctx, "sparse.iter", &|| sv.iter(), bits, &what);
        nth_total(ctx, "bitvector.zero_iter", &|| bv.zero_iter(), &zeros, Some(&|it| it.len()), &what);
        nth_back_total(ctx, "bitvector.zero_iter", &|| bv.zero_iter(), &zeros, &what);
        if !ones.is_empty() {
            let r = rng.below(ones.len());
            nth_total(ctx, "bitvector.select_iter", &|| bv.select_iter(r), &ones[r..], Some(&|it| it.len()), &what);
            let p = ones[r].1;
            nth_total(ctx, "bitvector.successor", &|| bv.successor(p), &ones[r..], Some(&|it| it.len()), &what);
            nth_total(ctx, "bitvector.predecessor", &|| bv.predecessor(p), &ones[r..], Some(&|it| it.len()), &what);
        }
        if !zeros.is_empty() {
            let r = rng.below(zeros.len());
            nth_total(ctx, "bitvector.select_zero_iter", &|| bv.select_zero_iter(r), &zeros[r..], Some(&|it| it.len()), &what);
        }
        // Sparse.
        nth_total(ctx, "sparse.iter", &|| sv.iter(), bits, Some(&|it| it.len()), &what);
        nth_back_total(ctx, "sparse.iter", &|| sv.iter(), bits, &what);
        nth_total(ctx, "sparse.one_iter", &|| sv.one_iter(), &ones, Some(&|it| it.len()), &what);
        nth_back_total(ctx, "sparse.one_iter", &|| sv.one_iter(), &ones, &what);
        nth_total(ctx, "sparse.zero_iter", &|| sv.zero_iter(), &zeros, Some(&|it| it.len()), &what);
        // Run-length.
        nth_total(ctx, "rl.iter", &|| rv.iter(), bits, Some(&|it| it.len()), &what);
        nth_total(ctx, "rl.one_iter", &|| rv.one_iter(), &ones, Some(&|it| it.len()), &what);
        nth_total(ctx, "rl.zero_iter", &|| rv.zero_iter(), &zeros, Some(&|it| it.len()), &what);
        let runs = m.runs();
        nth_total(ctx, "rl.run_iter", &|| rv.run_iter(), &runs, None, &what);
        // Integer vectors and the wavelet matrix.
        let items: Vec<u64> = (0..std::cmp::min(n, 300)).map(|i| (i as u64 * 7 + bits[i] as u64) % 13).collect();
        let iv = IntVector::from(items.clone());
        nth_total(ctx, "int_vector.iter", &|| iv.iter(), &items, Some(&|it| it.len()), &what);
        nth_back_total(ctx, "int_vector.iter", &|| iv.iter(), &items, &what);
        nth_back_after_front(ctx, "int_vector.iter", &|| iv.iter(), &items, &what);
        nth_after_back(ctx, "int_vector.iter", &|| iv.iter(), &items, &what);
        nth_total(ctx, "int_vector.into_iter", &|| iv.clone().into_iter(), &items, Some(&|it| it.len()), &what);
        let wm = WaveletMatrix::from(items.clone());
        nth_total(ctx, "wm.iter", &|| wm.iter(), &items, Some(&|it| it.len()), &what);
        nth_back_total(ctx, "wm.iter", &|| wm.iter(), &items, &what);
        nth_back_after_front(ctx, "wm.iter", &|| wm.iter(), &items, &what);
        nth_after_back(ctx, "wm.iter", &|| wm.iter(), &items, &what);
        nth_total(ctx, "wm.into_iter", &|| wm.clone().into_iter(), &items, Some(&|it| it.len()), &what);
        let occ: Vec<(usize, usize)> = (0..items.len()).filter(|i| items[*i] == 3).enumerate().collect();
        nth_total(ctx, "wm.value_iter", &|| wm.value_iter(3), &occ, None, &what);
        ctx.case(hash64(&[2, n as u64, hash64(&m.ones.iter().map(|x| *x as u64).collect::<Vec<u64>>())]), true);
        ctx.sample(|| format!("nth: len={} ones={}: every iterator type x consumed {{0,1,mid,total-1,total}} x nth/nth_back({{0,rem-1,rem,rem+1,2rem,2^63-1,2^63,MAX-1,MAX}})", n, ones.len()));
    }
}

//-----------------------------------------------------------------------------

fn rev_key(x: u64, width: usize) -> u64 {
    let mut out = 0u64;
    for i in 0..width { if (x >> i) & 1 == 1 { out |= 1u64 << (width - 1 - i); } }
    out
}

fn wavelet(ctx: &mut Ctx) {
    let mut rng = Rng::new(ctx.seed ^ 0xC9_2);
    let mut vectors: Vec<Vec<u64>> = vec![Vec::new(), vec![0], vec![1], vec![0, 1], vec![1, 0], vec![3, 3, 3], vec![0, 0, 0], vec![5, 0, 5, 2, 7, 7, 1],
        // power-of-two lengths with values missing from the alphabet (their "first occurrence" is the sentinel len)
        vec![0, 1, 3, 1, 1, 3, 0, 3], vec![2, 2, 0, 2], vec![7, 7], (0..16).map(|i| [0u64, 4, 6][i % 3]).collect(), (0..64).map(|i| (i as u64 % 5) * 3).collect(), (0..128).map(|i| 1 + (i as u64 % 2) * 8).collect()];
    for _ in 0..ctx.size(60, 800) {
        let len = 1 + rng.below(if cfg!(miri) { 24 } else { 200 });
        let width = 1 + rng.below(if cfg!(miri) { 4 } else { 10 });
        let top = (1u64 << width) - 1;
        let sparse_alpha = rng.chance(1, 2);
        vectors.push((0..len).map(|_| if sparse_alpha { (rng.next_u64() & top) | 1 } else { rng.next_u64() & top }).collect());
    }
    for (k, v) in vectors.iter().enumerate() {
        if !ctx.mine(k as u64) { continue; }
        if !ctx.begin_case() { continue; }
        let n = v.len();
        let desc = || format!("V[{}]={:?}", n, &v[..std::cmp::min(n, 24)]);
        let max = v.iter().copied().max().unwrap_or(0);
        let width = { let mut w = 1; while (max >> w) != 0 { w += 1; } w };
        let top = (1u64 << width) - 1;
        let wm = match guard(|| WaveletMatrix::from(v.clone())) { Ok(x) => x, Err(e) => { ctx.violation("wm.construct", e); continue; } };
        let core = match guard(|| WMCore::from(v.clone())) { Ok(x) => x, Err(e) => { ctx.violation("core.construct", e); continue; } };
        let idx = extreme_args(n);
        let mut values: Vec<u64> = vec![0, 1, top, top + 1, top + 2, u64::MAX, u64::MAX - 1, 1u64 << 63];
        if n > 0 { values.push(v[rng.below(n)]); values.push(v[0]); }
        for x in 0..=top { if !v.contains(&x) { values.push(x); break; } }
        values.sort_unstable(); values.dedup();
        for &val in &values {
            let occ: Vec<usize> = (0..n).filter(|j| v[*j] == val).collect();
            let all: Vec<(usize, usize)> = occ.iter().copied().enumerate().collect();
            ctx.expect_eq("wm.contains", || format!("contains({}) on {}", val, desc()), &guard(|| wm.contains(val)), &(!occ.is_empty()));
            for &i in &idx {
                let cls = crate::util::arg_class(i, n);
                let r = occ.partition_point(|j| *j < i);
                ctx.expect_eq(&format!("wm.rank.{}", cls), || format!("rank({}, {}) on {}", i, val, desc()), &guard(|| wm.rank(i, val)), &r);
                let p = occ.partition_point(|j| *j <= i);
                let want_pred: Vec<(usize, usize)> = if p == 0 { Vec::new() } else { all[p - 1..].to_vec() };
                ctx.expect_eq(&format!("wm.predecessor.{}", cls), || format!("predecessor({}, {}) on {}", i, val, desc()), &guard(|| wm.predecessor(i, val).collect::<Vec<(usize, usize)>>()), &want_pred);
                let want_succ: Vec<(usize, usize)> = all[std::cmp::min(r, all.len())..].to_vec();
                ctx.expect_eq(&format!("wm.successor.{}", cls), || format!("successor({}, {}) on {}", i, val, desc()), &guard(|| wm.successor(i, val).collect::<Vec<(usize, usize)>>()), &want_succ);
            }
            for &r in &extreme_args(occ.len()) {
                let cls = crate::util::arg_class(r, occ.len());
                ctx.expect_eq(&format!("wm.select.{}", cls), || format!("select({}, {}) on {}", r, val, desc()), &guard(|| wm.select(r, val)), &occ.get(r).copied());
                let want: Vec<(usize, usize)> = all[std::cmp::min(r, all.len())..].to_vec();
                ctx.expect_eq(&format!("wm.select_iter.{}", cls), || format!("select_iter({}, {}) on {}", r, val, desc()), &guard(|| wm.select_iter(r, val).collect::<Vec<(usize, usize)>>()), &want);
            }
        }
        for &i in &idx {
            let cls = crate::util::arg_class(i, n);
            let inv = if i < n { Some((v[..i].iter().filter(|x| **x == v[i]).count(), v[i])) } else { None };
            ctx.expect_eq(&format!("wm.inverse_select.{}", cls), || format!("inverse_select({}) on {}", i, desc()), &guard(|| wm.inverse_select(i)), &inv);
            ctx.expect_eq(&format!("wm.get_or.{}", cls), || format!("get_or({}, 9) on {}", i, desc()), &guard(|| wm.get_or(i, 9)), &(if i < n { v[i] } else { 9 }));
        }

        // Core mapping: totality and the documented answers.
        let mut order: Vec<usize> = (0..n).collect();
        order.sort_by_key(|i| rev_key(v[*i], width));
        for &i in &idx {
            let cls = crate::util::arg_class(i, n);
            let want = if i < n { Some((order.iter().position(|j| *j == i).unwrap(), v[i])) } else { None };
            ctx.expect_eq(&format!("core.map_down.{}", cls), || format!("map_down({}) on {}", i, desc()), &guard(|| core.map_down(i)), &want);
        }
        for &val in &values {
            if val > top {
                // Bits above the width: only totality is demanded.
                for &i in &idx {
                    ctx.checks += 1;
                    if let Err(p) = guard(|| (core.map_down_with(i, val), core.map_up_with(i, val))) {
                        ctx.violation("core.wide_value!panic", format!("map_down_with/map_up_with({}, {}) panicked ({}) on {}", i, val, p, desc()));
                    }
                }
                continue;
            }
            let before = v.iter().filter(|x| rev_key(**x, width) < rev_key(val, width)).count();
            let occ: Vec<usize> = (0..n).filter(|j| v[*j] == val).collect();
            let mut ups: Vec<usize> = idx.clone();
            ups.extend(0..n + 2);
            ups.sort_unstable(); ups.dedup();
            for &i in &idx {
                let cls = crate::util::arg_class(i, n);
                let c = occ.partition_point(|j| *j < i);
                ctx.expect_eq(&format!("core.map_down_with.{}", cls), || format!("map_down_with({}, {}) on {}", i, val, desc()), &guard(|| core.map_down_with(i, val)), &(before + c));
            }
            for &p in &ups {
                let cls = crate::util::arg_class(p, n);
                // Some only for a true preimage: p inside the bucket of `val`.
                let want = if p >= before && p - before < occ.len() { Some(occ[p - before]) } else { None };
                ctx.expect_eq(&format!("core.map_up_with.{}", cls), || format!("map_up_with({}, {}) on {}", p, val, desc()), &guard(|| core.map_up_with(p, val)), &want);
            }
        }
        ctx.case(hash64(&[3, n as u64, hash64(v)]), true);
        ctx.sample(|| format!("wm: {} x indices/ranks {:?} x values {:?}", desc(), &idx[..std::cmp::min(idx.len(), 6)], &values[..std::cmp::min(values.len(), 6)]));
    }
}

//-----------------------------------------------------------------------------

fn constructors(ctx: &mut Ctx) {
    if !ctx.mine(0) { return; }
    let widths: Vec<usize> = vec![0, 1, 2, 31, 63, 64, 65, 66, 128, usize::MAX - 1, usize::MAX];
    for &w in &widths {
        if !ctx.begin_case() { continue; }
        let valid = w >= 1 && w <= 64;
        ctx.expect_eq("ctor.int_vector.new", || format!("IntVector::new({}).is_ok()", w), &guard(|| IntVector::new(w).is_ok()), &valid);
        ctx.expect_eq("ctor.int_vector.with_len", || format!("IntVector::with_len(3, {}, 1).is_ok()", w), &guard(|| IntVector::with_len(3, w, 1).is_ok()), &valid);
        ctx.expect_eq("ctor.int_vector.with_len", || format!("IntVector::with_len(0, {}, 1).is_ok()", w), &guard(|| IntVector::with_len(0, w, 1).is_ok()), &valid);
        ctx.expect_eq("ctor.int_vector.with_capacity", || format!("IntVector::with_capacity(3, {}).is_ok()", w), &guard(|| IntVector::with_capacity(3, w).is_ok()), &valid);
        let name = format!("{}/vmon-c09-{}-{}-{}", ctx.tmpdir, std::process::id(), ctx.shard, w);
        ctx.expect_eq("ctor.int_vector_writer.new", || format!("IntVectorWriter::new(_, {}).is_ok()", w), &guard(|| { let r = IntVectorWriter::with_buf_len(&name, w, 16); let ok = r.is_ok(); if let Ok(mut wr) = r { wr.push(1); let _ = wr.close(); } ok }), &valid);
        ctx.expect_eq("ctor.int_vector_writer.with_buf_len", || format!("IntVectorWriter::with_buf_len(_, {}, 0).is_ok()", w), &guard(|| IntVectorWriter::with_buf_len(&name, w, 0).is_ok()), &valid);
        if !cfg!(miri) || valid {
            ctx.expect_eq("ctor.int_vector_writer.new", || format!("IntVectorWriter::new(_, {}).is_ok() (default buffer)", w), &guard(|| IntVectorWriter::new(&name, w).is_ok()), &valid);
        }
        let _ = std::fs::remove_file(&name);
        ctx.case(hash64(&[4, w as u64]), true);
    }
    ctx.sample(|| format!("ctor: IntVector::{{new,with_len,with_capacity}} and IntVectorWriter::{{new,with_buf_len}} x widths {:?}", widths));
    // Sparse builder: more set bits than the universe has positions.
    for &(u, ones) in &[(0usize, 0usize), (0, 1), (1, 1), (1, 2), (5, 5), (5, 6), (100, usize::MAX), (usize::MAX, 3), (10, 11), (3, usize::MAX - 1), (1, usize::MAX), (1usize << 40, usize::MAX), (1usize << 62, (1usize << 62) + 1), (7, 1usize << 63)] {
        if !ctx.begin_case() { continue; }
        // Allocation grows with `ones`; keep the accepted cases small.
        if ones > 1000 && ones <= u { continue; }
        ctx.expect_eq("ctor.sparse_builder.new", || format!("SparseBuilder::new({}, {}).is_ok()", u, ones), &guard(|| SparseBuilder::new(u, ones).is_ok()), &(ones <= u));
        ctx.case(hash64(&[5, u as u64, ones as u64]), true);
    }
    // RL builder: out of order, overflowing runs.
    let cases: Vec<(Vec<(usize, usize)>, (usize, usize), bool)> = vec![
        (vec![], (0, 0), true), (vec![], (usize::MAX, 0), true), (vec![], (usize::MAX, 1), false), (vec![], (usize::MAX - 1, 1), true), (vec![], (usize::MAX - 1, 2), false),
        (vec![], (1, usize::MAX), false), (vec![], (0, usize::MAX), true), (vec![], (1usize << 63, 1usize << 63), false), (vec![], (1usize << 63, (1usize << 63) - 1), true),
        (vec![(5, 3)], (7, 1), false), (vec![(5, 3)], (8, 1), true), (vec![(5, 3)], (0, 1), false), (vec![(5, 3)], (7, 0), false), (vec![(5, 3)], (9, usize::MAX - 8), false),
        (vec![(5, 3)], (9, usize::MAX - 9), true), (vec![(0, 10), (20, 5)], (24, 2), false), (vec![(0, 10), (20, 5)], (25, usize::MAX - 25), true),
    ];
    for (prefix, (s, l), accept) in cases.iter() {
        if !ctx.begin_case() { continue; }
        let got = guard(|| {
            let mut b = RLBuilder::new();
            for &(ps, pl) in prefix.iter() { b.try_set(ps, pl).unwrap(); }
            let before = (b.len(), b.count_ones());
            let r = b.try_set(*s, *l).is_ok();
            (r, r || (b.len(), b.count_ones()) == before)
        });
        ctx.expect_eq("ctor.rl_builder.try_set", || format!("after {:?}: try_set({}, {}) -> (accepted, unchanged if refused)", prefix, s, l), &got, &(*accept, true));
        ctx.case(hash64(&[6, *s as u64, *l as u64, prefix.len() as u64]), true);
    }
    let _ = (BitVector::from(simple_sds::raw_vector::RawVector::new()), None::<SparseVector>, None::<RLVector>);
}

//-----------------------------------------------------------------------------

// Indices whose product with the item width wraps around 2^64 (to 0, to a small value, to just below 2^64).
fn wrapping_indices(width: usize) -> Vec<usize> {
    let w = width as u128;
    let q = (((1u128 << 64) + w - 1) / w) as usize; // the first index with index * width >= 2^64
    let mut v = vec![q.wrapping_sub(1), q, q.wrapping_add(1), q.wrapping_add(2), q.wrapping_mul(2), q.wrapping_mul(2).wrapping_add(1), usize::MAX / width, (usize::MAX / width).wrapping_add(1),
        1usize << 58, 1usize << 60, 1usize << 62, 3usize << 62, (1usize << 63) + (1usize << 58), usize::MAX - width, usize::MAX / 2 + 1];
    v.sort_unstable();
    v.dedup();
    v
}

// The answers the plain vectors define for arguments outside the vector: `get_or` returns the default for every invalid
// index (vector, memory-mapped vector), popping from an empty vector (or more bits than there are) returns None and
// changes nothing, and the item iterators behave like every other iterator for skips beyond the remainder.
fn plain_vectors(ctx: &mut Ctx) {
    let mut rng = Rng::new(ctx.seed ^ 0xC9_3);
    let mut case_no = 0u64;
    for width in 1..=64usize {
        for &len in &[0usize, 1, 2, 3, 64, 65, 130] {
            case_no += 1;
            let len = if len == 130 { 66 + rng.below(if cfg!(miri) { 30 } else { 400 }) } else { len };
            let values: Vec<u64> = (0..len).map(|_| { let v = rng.next_u64(); if width == 64 { v } else { v & ((1u64 << width) - 1) } }).collect();
            if !ctx.mine(case_no) { continue; }
            if !ctx.begin_case() { continue; }
            let desc = || format!("IntVector(width {}, len {})", width, len);
            let mut iv = match guard(|| { let mut x = IntVector::new(width).unwrap(); for &v in values.iter() { x.push(v); } x }) { Ok(x) => x, Err(e) => { ctx.violation("vec.int.construct", format!("{}: {}", desc(), e)); continue; } };
            let mut idx = extreme_args(len);
            idx.extend(wrapping_indices(width));
            idx.sort_unstable(); idx.dedup();
            let default = 0xD0D0_D0D0_D0D0_D0D0u64;
            for &i in idx.iter() {
                let cls = crate::util::arg_class(i, len);
                let want = if i < len { values[i] } else { default };
                ctx.expect_eq(&format!("vec.int.get_or.{}", cls), || format!("get_or({}, default) on {}", i, desc()), &guard(|| iv.get_or(i, default)), &want);
            }
            // Iterators over the items: skips beyond the remainder.
            for &k in &[len, len.saturating_add(1), 1usize << 63, usize::MAX - 1, usize::MAX] {
                ctx.expect_eq("vec.int.iter.nth", || format!("iter().nth({}) then len() on {}", k, desc()), &guard(|| { let mut it = iv.iter(); let r = it.nth(k); (r, it.len(), it.next()) }), &(None, 0, None));
                ctx.expect_eq("vec.int.iter.nth_back", || format!("iter().nth_back({}) then len() on {}", k, desc()), &guard(|| { let mut it = iv.iter(); let r = it.nth_back(k); (r, it.len(), it.next_back()) }), &(None, 0, None));
                ctx.expect_eq("vec.int.into_iter.nth", || format!("into_iter().nth({}) on {}", k, desc()), &guard(|| { let mut it = iv.clone().into_iter(); let r = it.nth(k); (r, it.next()) }), &(None, None));
            }
            // The same vector through a memory map.
            if !cfg!(miri) {
                let name = format!("{}/vmon-c09-vec-{}-{}-{}", ctx.tmpdir, std::process::id(), ctx.shard, case_no);
                let pad = rng.below(3);
                let ok = guard(|| { let mut f = std::fs::File::create(&name).unwrap(); for _ in 0..pad { 7u64.serialize(&mut f).unwrap(); } iv.serialize(&mut f).unwrap(); }).is_ok();
                if ok {
                    match guard(|| MemoryMap::new(&name, MappingMode::ReadOnly)) {
                        Ok(Ok(map)) => {
                            match guard(|| IntVectorMapper::new(&map, pad)) {
                                Ok(Ok(mp)) => {
                                    for &i in idx.iter() {
                                        let cls = crate::util::arg_class(i, len);
                                        let want = if i < len { values[i] } else { default };
                                        ctx.expect_eq(&format!("vec.int_mapper.get_or.{}", cls), || format!("IntVectorMapper::get_or({}, default) on {} at offset {}", i, desc(), pad), &guard(|| mp.get_or(i, default)), &want);
                                    }
                                    for &k in &[len, len.saturating_add(1), 1usize << 63, usize::MAX] {
                                        ctx.expect_eq("vec.int_mapper.iter.nth", || format!("IntVectorMapper::iter().nth({}) then len() on {}", k, desc()), &guard(|| { let mut it = mp.iter(); let r = it.nth(k); (r, it.len(), it.next()) }), &(None, 0, None));
                                    }
                                },
                                other => ctx.violation("vec.int_mapper.new", format!("IntVectorMapper::new at offset {} of a file holding {}: {:?}", pad, desc(), other.map(|r| r.map(|_| ()).map_err(|e| e.to_string())))),
                            }
                        },
                        other => ctx.inconclusive(format!("could not map {}: {:?}", name, other.map(|r| r.map(|_| ()).map_err(|e| e.to_string())))),
                    }
                }
                let _ = std::fs::remove_file(&name);
            }
            // Popping more than there is.
            let before = values.clone();
            for _ in 0..len { let _ = guard(|| iv.pop()); }
            ctx.expect_eq("vec.int.pop.empty", || format!("pop() on the emptied {}", desc()), &guard(|| (iv.pop(), iv.len(), iv.pop(), iv.is_empty())), &(None, 0, None, true));
            // Raw vector: pop_int of more bits than there are, pop_bit on empty.
            let bits = (len * width) % 67;
            let mut raw = RawVector::new();
            for j in 0..bits { raw.push_bit(before.get(j % std::cmp::max(1, len)).map(|v| v & 1 == 1).unwrap_or(j % 3 == 0)); }
            let snapshot = raw.clone();
            for w in [bits + 1, 64].iter().copied().filter(|w| *w > bits && *w <= 64) {
                ctx.expect_eq("vec.raw.pop_int.too_many", || format!("pop_int({}) on a RawVector of {} bits, then the vector", w, bits), &guard(|| { let r = unsafe { raw.pop_int(w) }; (r, raw == snapshot) }), &(None, true));
            }
            if bits == 0 {
                ctx.expect_eq("vec.raw.pop_bit.empty", || "pop_bit() on an empty RawVector".to_string(), &guard(|| (raw.pop_bit(), raw.len())), &(None, 0));
            }
            ctx.case(hash64(&[7, width as u64, len as u64, values.first().copied().unwrap_or(0)]), true);
        }
    }
    ctx.sample(|| "vec: IntVector / IntVectorMapper get_or at extreme and product-wrapping indices, item iterators skipped beyond the end, pops on empty vectors, for every width 1..=64".to_string());
}
