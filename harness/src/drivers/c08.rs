// C08: the safe API never touches memory outside a structure's buffers.
//
// A hostile driver: per structure type and instance, random sequences of calls to every safe public method with
// arguments from {0, 1, len-1, len, len+1, 2len, 2^63, MAX-1, MAX} and random values, each call under catch_unwind
// (panics are legal outcomes). The verdict is process-level: a Miri / AddressSanitizer / memcheck report, a fatal
// signal, or the sticky flag of the feature-guarded bounds hooks inside the unchecked accessors.

use simple_sds::bit_vector::{BitVector, Identity, Complement, Transformation};
use simple_sds::bit_vector::rank_support::RankSupport;
use simple_sds::bit_vector::select_support::SelectSupport;
use simple_sds::int_vector::IntVector;
use simple_sds::ops::{Vector, Resize, Pack, Access, Push, Pop, VectorIndex, BitVec, Rank, Select, SelectZero, PredSucc};
use simple_sds::raw_vector::{RawVector, AccessRaw, PushRaw, PopRaw};
use simple_sds::rl_vector::{RLVector, RLBuilder};
use simple_sds::serialize::Serialize;
use simple_sds::sparse_vector::{SparseVector, SparseBuilder};
use simple_sds::wavelet_matrix::WaveletMatrix;
use simple_sds::wavelet_matrix::wm_core::WMCore;

use std::collections::HashSet;
use std::convert::TryFrom;
use std::hint::black_box;

use crate::gen;
use crate::mk;
use crate::util::{guard, hash64, hash_str, Ctx, Rng};

pub fn run(ctx: &mut Ctx) {
    install_crash_reporter();
    let part = ctx.part.clone();
    let mut cov: HashSet<String> = HashSet::new();
    if part.is_empty() || part == "raw" { raw_and_int(ctx, &mut cov); }
    if part.is_empty() || part == "bv" { bitvectors(ctx, &mut cov); big_bitvectors(ctx, &mut cov); }
    if part.is_empty() || part == "sparse" { sparse(ctx, &mut cov); }
    if part.is_empty() || part == "rl" { run_length(ctx, &mut cov); }
    if part.is_empty() || part == "wm" { wavelet(ctx, &mut cov); }
    if !cfg!(miri) && (part.is_empty() || part == "mapped") { mapped(ctx, &mut cov); }
    ctx.count("max:coverage.method_argclass_pairs", cov.len() as u64);
    let mut methods: HashSet<&str> = HashSet::new();
    for k in cov.iter() { methods.insert(k.split('|').next().unwrap_or("")); }
    ctx.count("max:coverage.methods", methods.len() as u64);
    for k in cov.iter() { ctx.digests.insert(hash_str(k)); }
}

//-----------------------------------------------------------------------------
// Crash attribution: the description of the call in flight is kept in a static buffer that a signal handler prints.

static mut LAST_CALL: [u8; 320] = [0; 320];
static mut LAST_LEN: usize = 0;

// For other drivers: what to print if the process dies with a fatal signal.
pub fn note_call(s: &str) { install_crash_reporter(); set_last_call(s); }

fn set_last_call(s: &str) {
    unsafe {
        let b = s.as_bytes();
        let n = std::cmp::min(b.len(), 319);
        let dst = std::ptr::addr_of_mut!(LAST_CALL) as *mut u8;
        std::ptr::copy_nonoverlapping(b.as_ptr(), dst, n);
        LAST_LEN = n;
    }
}

#[cfg(not(miri))]
extern "C" fn on_fatal(sig: libc::c_int) {
    unsafe {
        let head = b"\nVMON-LAST-CALL ";
        libc::write(2, head.as_ptr() as *const libc::c_void, head.len());
        libc::write(2, std::ptr::addr_of!(LAST_CALL) as *const libc::c_void, LAST_LEN);
        libc::write(2, b"\n".as_ptr() as *const libc::c_void, 1);
        libc::signal(sig, libc::SIG_DFL);
        libc::raise(sig);
    }
}

fn install_crash_reporter() {
    #[cfg(not(miri))]
    {
        // Sanitizer runtimes install their own handlers and print better reports: leave those alone.
        if std::env::var("ASAN_OPTIONS").is_ok() || std::env::var("TSAN_OPTIONS").is_ok() { return; }
        unsafe {
            for s in [libc::SIGSEGV, libc::SIGBUS, libc::SIGILL, libc::SIGFPE] {
                libc::signal(s, on_fatal as usize);
            }
        }
    }
}

//-----------------------------------------------------------------------------

fn hostile(rng: &mut Rng, len: usize) -> (usize, &'static str) {
    match rng.below(14) {
        0 => (0, "0"),
        1 => (1, "1"),
        2 => (len.saturating_sub(1), "len-1"),
        3 => (len, "len"),
        4 => (len.saturating_add(1), "len+1"),
        5 => (len.saturating_mul(2), "2len"),
        6 => (1usize << 63, "2^63"),
        7 => (usize::MAX - 1, "MAX-1"),
        8 => (usize::MAX, "MAX"),
        9 => (len.saturating_add(63), "len+63"),
        10 => ((len / 64).wrapping_add(1).wrapping_mul(64), "next_word"),
        _ => (rng.below(len.saturating_add(2)), "random"),
    }
}

struct Hd<'a> { ctx: &'a mut Ctx, cov: &'a mut HashSet<String>, calls: u64, panics: u64, what: String }

impl<'a> Hd<'a> {
    // One monitored call: recorded before it is made, executed under catch_unwind, result discarded.
    fn call<T>(&mut self, method: &str, cls: &str, arg: usize, f: impl FnOnce() -> T) {
        self.calls += 1;
        self.ctx.checks += 1;
        // String formatting is expensive under the interpreter, which has no signals to attribute anyway.
        if !cfg!(miri) {
            if self.cov.len() < 20000 { self.cov.insert(format!("{}|{}", method, cls)); }
            set_last_call(&format!("case#{} {} {}({} = {}) on {}", self.ctx.case_no, self.ctx.cfg, method, cls, arg, self.what));
        }
        match guard(f) {
            Ok(v) => { black_box(&v); },
            Err(_) => { self.panics += 1; },
        }
        #[cfg(feature = "bounds")]
        {
            if simple_sds::verif::oob_flag() {
                simple_sds::verif::oob_clear();
                self.ctx.violation(&format!("bounds_hook.{}", method), format!("an unchecked accessor was reached with an out-of-range index during {}({} = {}) on {}", method, cls, arg, self.what));
            }
        }
    }
}

fn h_reborrow<'a, 'b>(h: &'a mut Hd<'b>) -> &'a mut Hd<'b> { h }

fn finish(h: Hd, key: &[u64]) {
    let (calls, panics) = (h.calls, h.panics);
    h.ctx.count("calls", calls);
    h.ctx.count("calls_panicked", panics);
    h.ctx.case(hash64(key), true);
}

fn take_some<I: Iterator>(it: I, rng: &mut Rng) -> usize where I::Item: std::fmt::Debug { take_some_capped(it, rng, false) }

// `huge`: the iterator may have ~2^60 items and a default (linear) nth: extreme skips would never return.
fn take_some_capped<I: Iterator>(mut it: I, rng: &mut Rng, huge: bool) -> usize where I::Item: std::fmt::Debug {
    // A short random walk over an iterator with hostile nth arguments.
    let mut n = 0;
    for _ in 0..6 {
        let big = if huge { if cfg!(miri) { 40 } else { 1000 } } else { usize::MAX };
        let r = match rng.below(5) { 0 => it.next(), 1 => it.nth(rng.below(70)), 2 => it.nth(big), 3 => it.nth(big - 1), _ => it.nth(1) };
        if r.is_some() { n += 1; }
        black_box(&r);
    }
    black_box(it.size_hint());
    n
}

fn take_back<I: DoubleEndedIterator + ExactSizeIterator>(mut it: I, rng: &mut Rng) -> usize where I::Item: std::fmt::Debug {
    let mut n = 0;
    for _ in 0..8 {
        let r = match rng.below(8) { 0 => it.next(), 1 => it.next_back(), 2 => it.nth(rng.below(70)), 3 => it.nth_back(rng.below(70)), 4 => it.nth(usize::MAX), 5 => it.nth_back(usize::MAX), 6 => it.nth(it.len()), _ => it.nth_back(it.len().saturating_sub(1)) };
        if r.is_some() { n += 1; }
        black_box(&r);
        black_box(it.len());
    }
    n
}

//-----------------------------------------------------------------------------

fn hostile_raw(h: &mut Hd, rng: &mut Rng, raw: &mut RawVector, steps: usize) {
    for _ in 0..steps {
        let len = raw.len();
        let (a, cls) = hostile(rng, len);
        match rng.below(17) {
            0 => h.call("RawVector::bit", cls, a, || raw.bit(a)),
            1 => { let (w, c) = hostile(rng, (len + 63) / 64); h.call("RawVector::word", c, w, || raw.word(w)) },
            2 | 3 => { let v = rng.chance(1, 2); h.call("RawVector::set_bit", cls, a, || raw.set_bit(a, v)) },
            4 => h.call("RawVector::push_bit", "-", 0, || raw.push_bit(true)),
            5 => h.call("RawVector::pop_bit", "-", 0, || raw.pop_bit()),
            6 => { let n = std::cmp::min(a, if cfg!(miri) { 200 } else { 5000 }); let v = rng.chance(1, 2); h.call("RawVector::resize", cls, n, || raw.resize(n, v)) },
            7 => h.call("RawVector::clear", "-", 0, || raw.clear()),
            8 => { let n = std::cmp::min(a, if cfg!(miri) { 200 } else { 5000 }); h.call("RawVector::reserve", cls, n, || raw.reserve(n)) },
            9 => h.call("RawVector::complement", "-", 0, || { let c = raw.complement(); *raw = c; }),
            10 => h.call("RawVector::count_ones", "-", 0, || raw.count_ones()),
            11 => h.call("RawVector::serialize", "-", 0, || { let mut o: Vec<u8> = Vec::new(); raw.serialize(&mut o).map(|_| o.len()) }),
            12 => h.call("RawVector::as_ref", "-", 0, || { let w: &[u64] = raw.as_ref(); w.len() }),
            13 => { let n = std::cmp::min(a, if cfg!(miri) { 200 } else { 5000 }); h.call("RawVector::with_len", cls, n, || { *raw = RawVector::with_len(n, true); }) },
            14 => h.call("RawVector::capacity", "-", 0, || (raw.capacity(), raw.len(), raw.is_empty())),
            16 => {
                // Lengths whose word count wraps around (no allocation happens): a panic is fine, a vector whose length
                // and buffer disagree is not, and the bitvector built on it must not read outside the buffer.
                let n = usize::MAX - rng.below(63);
                let v = rng.chance(1, 2);
                h.call("RawVector::with_len", "wrap", n, || {
                    let x = RawVector::with_len(n, v);
                    let bv = BitVector::from(x.clone());
                    // Each on its own: a checked accessor that panics must not keep the unchecked ones from being tried.
                    let a = guard(|| bv.zero_iter().next()).is_ok();
                    let b = guard(|| bv.one_iter().next_back()).is_ok();
                    let c = guard(|| bv.iter().nth(n / 2)).is_ok();
                    let d = guard(|| (x.bit(0), x.count_ones(), bv.get(n - 1))).is_ok();
                    (a, b, c, d)
                })
            },
            _ => h.call("RawVector::size_by_params", cls, a, || RawVector::size_by_params(std::cmp::min(a, usize::MAX - 64))),
        }
    }
}

fn hostile_int(h: &mut Hd, rng: &mut Rng, iv: &mut IntVector, steps: usize) {
    for _ in 0..steps {
        let len = iv.len();
        let (a, cls) = hostile(rng, len);
        let v = rng.next_u64();
        match rng.below(17) {
            0 | 1 => h.call("IntVector::get", cls, a, || iv.get(a)),
            2 => h.call("IntVector::get_or", cls, a, || iv.get_or(a, 5)),
            3 | 4 => h.call("IntVector::set", cls, a, || iv.set(a, v)),
            5 => h.call("IntVector::push", "-", 0, || iv.push(v)),
            6 => h.call("IntVector::pop", "-", 0, || iv.pop()),
            7 => { let n = std::cmp::min(a, if cfg!(miri) { 60 } else { 3000 }); h.call("IntVector::resize", cls, n, || iv.resize(n, v)) },
            8 => h.call("IntVector::clear", "-", 0, || iv.clear()),
            9 => h.call("IntVector::pack", "-", 0, || iv.pack()),
            10 => { let mut r2 = rng.clone(); h.call("IntVector::iter", "-", 0, || take_back(iv.iter(), &mut r2)) },
            11 => { let mut r2 = rng.clone(); h.call("IntVector::into_iter", "-", 0, || take_some(iv.clone().into_iter(), &mut r2)) },
            12 => h.call("IntVector::extend", "-", 0, || iv.extend(vec![v, 1, 2])),
            13 => h.call("IntVector::serialize", "-", 0, || { let mut o: Vec<u8> = Vec::new(); iv.serialize(&mut o).map(|_| o.len()) }),
            14 => { let w = *rng.pick(&[0usize, 1, 7, 63, 64, 65, usize::MAX]); let n = std::cmp::min(a, if cfg!(miri) { 60 } else { 3000 }); h.call("IntVector::with_len", cls, n, || { if let Ok(x) = IntVector::with_len(n, w, v) { *iv = x; } }) },
            15 => h.call("RawVector::from(IntVector)", "-", 0, || {
                // ... and on into a bitvector whose iterators are walked from both ends (values wider than the item width
                // were pushed above: no bit of them may survive outside the items).
                let r = RawVector::from(iv.clone());
                let n = r.len();
                let bv = BitVector::from(r);
                let mut back = bv.one_iter();
                let mut k = 0usize;
                while back.next_back().is_some() && k < 5000 { k += 1; }
                (n, bv.count_ones(), k, bv.zero_iter().count(), bv.one_iter().count(), bv.iter().rev().take(130).filter(|b| *b).count())
            }),
            _ => h.call("IntVector::misc", "-", 0, || (iv.width(), iv.max_len(), iv.capacity(), iv.is_empty(), iv.is_mutable())),
        }
    }
}

fn raw_and_int(ctx: &mut Ctx, cov: &mut HashSet<String>) {
    let cases = ctx.size(4000, 40000);
    for c in 0..cases {
        if !ctx.begin_case() { continue; }
        let mut rng: Rng = ctx.rng(0xC08_000 + c as u64);
        let n = match c % 5 { 0 => 0, 1 => 1 + rng.below(3), 2 => 63 + rng.below(3), _ => rng.below(if cfg!(miri) { 140 } else { 400 }) };
        let bits: Vec<bool> = (0..n).map(|_| rng.chance(1, 2)).collect();
        let mut raw = match c % 3 { 0 => mk::raw_set_bit(&bits), 1 => mk::raw_push(&bits, &mut rng), _ => { let mut r = RawVector::with_capacity(n + 500); for b in bits.iter() { r.push_bit(*b); } r } };
        let steps = 1 + rng.below(30);
        let mut h = Hd { ctx, cov, calls: 0, panics: 0, what: format!("RawVector of {} bits (route {})", n, c % 3) };
        hostile_raw(&mut h, &mut rng, &mut raw, steps);
        // Whatever the safe calls did to the raw vector, a plain bitvector built from it must stay inside its buffer.
        let snapshot = raw.clone();
        h.what = format!("BitVector::from(RawVector of {} bits after {} hostile safe calls)", snapshot.len(), steps);
        let mut bv = BitVector::from(snapshot);
        hostile_bv(&mut h, &mut rng, &mut bv, None, 12);
        let width = 1 + rng.below(64);
        let mut iv = IntVector::new(width).unwrap();
        for _ in 0..rng.below(80) { iv.push(rng.next_u64()); }
        h.what = format!("IntVector width {} len {}", width, iv.len());
        hostile_int(&mut h, &mut rng, &mut iv, steps);
        finish(h, &[1, c as u64, n as u64, steps as u64]);
        ctx.sample(|| format!("raw: RawVector of {} bits: {} hostile safe calls, then BitVector::from(it) x 12 hostile calls; IntVector width {} x {} hostile calls", n, steps, width, steps));
    }
}

// `other`: a different bitvector used as a mismatching parent for the support structures.
fn hostile_bv(h: &mut Hd, rng: &mut Rng, bv: &mut BitVector, other: Option<&BitVector>, steps: usize) {
    for _ in 0..steps {
        let len = bv.len();
        let (a, cls) = hostile(rng, len);
        let mut r2 = rng.clone();
        match rng.below(31) {
            0 => h.call("BitVector::get", cls, a, || bv.get(a)),
            1 => h.call("BitVector::rank", cls, a, || bv.rank(a)),
            2 => h.call("BitVector::rank_zero", cls, a, || bv.rank_zero(a)),
            3 => h.call("BitVector::select", cls, a, || bv.select(a)),
            4 => h.call("BitVector::select_zero", cls, a, || bv.select_zero(a)),
            5 => h.call("BitVector::select_iter", cls, a, || take_back(bv.select_iter(a), &mut r2)),
            6 => h.call("BitVector::select_zero_iter", cls, a, || take_back(bv.select_zero_iter(a), &mut r2)),
            7 => h.call("BitVector::predecessor", cls, a, || take_back(bv.predecessor(a), &mut r2)),
            8 => h.call("BitVector::successor", cls, a, || take_back(bv.successor(a), &mut r2)),
            9 => h.call("BitVector::one_iter", "-", 0, || take_back(bv.one_iter(), &mut r2)),
            10 => h.call("BitVector::zero_iter", "-", 0, || take_back(bv.zero_iter(), &mut r2)),
            11 => h.call("BitVector::iter", "-", 0, || take_back(bv.iter(), &mut r2)),
            12 => h.call("BitVector::enable_rank", "-", 0, || bv.enable_rank()),
            13 => h.call("BitVector::enable_select", "-", 0, || bv.enable_select()),
            14 => h.call("BitVector::enable_select_zero", "-", 0, || bv.enable_select_zero()),
            15 => h.call("BitVector::counts", "-", 0, || (bv.len(), bv.count_ones(), bv.count_zeros(), bv.is_empty(), bv.supports_rank(), bv.supports_select(), bv.supports_select_zero(), bv.supports_pred_succ())),
            16 => h.call("Identity::word", cls, a, || Identity::word(bv, a)),
            17 => h.call("Complement::word", cls, a, || Complement::word(bv, a)),
            18 => h.call("Identity::bit", cls, a, || Identity::bit(bv, a)),
            19 => h.call("Complement::bit", cls, a, || Complement::bit(bv, a)),
            20 => h.call("Transformation::one_iter", "-", 0, || (take_back(Identity::one_iter(bv), &mut r2), Complement::count_ones(bv), Identity::count_ones(bv))),
            21 => { let p = other.unwrap_or(bv); h.call("RankSupport::rank", cls, a, || { let rs = RankSupport::new(bv); (rs.blocks(), rs.rank(p, a)) }) },
            22 => { let p = other.unwrap_or(bv); h.call("SelectSupport<Identity>::select", cls, a, || { let ss = SelectSupport::<Identity>::new(bv); (ss.superblocks(), ss.long_superblocks(), ss.short_superblocks(), ss.select(p, a)) }) },
            23 => { let p = other.unwrap_or(bv); h.call("SelectSupport<Complement>::select", cls, a, || { let ss = SelectSupport::<Complement>::new(bv); ss.select(p, a) }) },
            24 => h.call("BitVector::serialize+load", "-", 0, || { let mut o: Vec<u8> = Vec::new(); bv.serialize(&mut o).unwrap(); let mut r: &[u8] = &o; BitVector::load(&mut r).map(|b| b.len()) }),
            25 => h.call("BitVector::copy_bit_vec", "-", 0, || BitVector::copy_bit_vec(bv).len()),
            26 => h.call("SparseVector::copy_bit_vec(BitVector)", "-", 0, || SparseVector::copy_bit_vec(bv).len()),
            27 => h.call("RLVector::copy_bit_vec(BitVector)", "-", 0, || RLVector::copy_bit_vec(bv).len()),
            28 => h.call("BitVector::as_ref", "-", 0, || { let r: &RawVector = bv.as_ref(); r.len() }),
            29 => h.call("RawVector::from(BitVector)", "-", 0, || { let r = RawVector::from(bv.clone()); (r.len(), r.count_ones(), r.is_mutable(), BitVector::from(r).count_ones()) }),
            _ => h.call("BitVector::enable_pred_succ", "-", 0, || bv.enable_pred_succ()),
        }
    }
}

// Vectors large enough for long select superblocks (for ones and for zeros): hostile calls, then iterators started
// inside every kind of superblock and walked to the very end (an iterator that starts at a wrong position runs its
// unchecked word scan past the last word).
fn big_bitvectors(ctx: &mut Ctx, cov: &mut HashSet<String>) {
    if cfg!(miri) { return; }
    let cases = if ctx.scale > 2 { 1 } else { ctx.size(2, 8) };
    for c in 0..cases {
        if !ctx.begin_case() { continue; }
        let mut rng: Rng = ctx.rng(0xC08_900 + c as u64);
        let invert = (c + ctx.shard) % 2 == 1;
        let (p_spread, p_dense, p_sparse, p_tail, p_span) = (200_000 + rng.below(200_000), 4096 + rng.below(6000), 1 + rng.below(3), rng.below(3) * 2000 + rng.below(7), 200_000 + rng.below(60_000));
        let bits = gen::superblock_mix(&mut rng, p_spread, p_dense, p_sparse, p_tail, p_span, invert);
        let n = bits.len();
        let mut bv = if c % 2 == 0 { mk::bv_set_bit(&bits) } else { mk::bv_iter(&bits) };
        mk::enable_all(&mut bv);
        let ones = bv.count_ones();
        let zeros = n - ones;
        let mut h = Hd { ctx, cov, calls: 0, panics: 0, what: format!("BitVector len {} with long and short select superblocks (ones {}, inverted {})", n, ones, invert) };
        hostile_bv(&mut h, &mut rng, &mut bv, None, 20);
        for k in 0..16usize {
            let r1 = match k % 4 { 0 => 1 + rng.below(4094), 1 => ones.saturating_sub(1 + rng.below(std::cmp::min(ones, 4000) + 1)), _ => rng.below(ones + 1) };
            let r0 = match k % 4 { 0 => 1 + rng.below(4094), 1 => zeros.saturating_sub(1 + rng.below(std::cmp::min(zeros, 4000) + 1)), _ => rng.below(zeros + 1) };
            let p = rng.below(n + 1);
            h.call("BitVector::select_iter.to_end", "in", r1, || bv.select_iter(r1).count());
            h.call("BitVector::select_zero_iter.to_end", "in", r0, || bv.select_zero_iter(r0).last());
            h.call("BitVector::successor.to_end", "in", p, || bv.successor(p).count());
            h.call("BitVector::predecessor.to_end", "in", p, || bv.predecessor(p).last());
            h.call("BitVector::select_iter.back", "in", r1, || bv.select_iter(r1).rev().take(70).count());
        }
        finish(h, &[22, c as u64, n as u64, ones as u64]);
        ctx.sample(|| format!("bv-big: BitVector len {} (ones {}, long+short superblocks, inverted {}) x 20 hostile calls + 80 iterators walked to the end", n, ones, invert));
    }
}

fn bitvectors(ctx: &mut Ctx, cov: &mut HashSet<String>) {
    let cases = ctx.size(4000, 40000);
    for c in 0..cases {
        if !ctx.begin_case() { continue; }
        let mut rng: Rng = ctx.rng(0xC08_100 + c as u64);
        let n = match c % 6 { 0 => 0, 1 => 1, 2 => 64 * (1 + rng.below(3)), 3 => 63 + rng.below(3), 4 => rng.below(if cfg!(miri) { 200 } else { 5000 }), _ => rng.below(if cfg!(miri) { 100 } else { 300 }) };
        let d = *rng.pick(&gen::DENSITIES);
        let s = *rng.pick(&gen::SHAPES);
        let bits = gen::bits(&mut rng, n, d, s);
        let mut bv = match c % 4 { 0 => mk::bv_set_bit(&bits), 1 => mk::bv_push(&bits, &mut rng), 2 => mk::bv_iter(&bits), _ => { let mut o: Vec<u8> = Vec::new(); let mut t = mk::bv_set_bit(&bits); mk::enable_all(&mut t); t.serialize(&mut o).unwrap(); let mut r: &[u8] = &o; BitVector::load(&mut r).unwrap() } };
        if c % 3 != 0 { mk::enable_all(&mut bv); }
        // A second vector of a different length as a mismatching parent.
        let n2 = match c % 3 { 0 => n / 2, 1 => if cfg!(miri) { n + 70 } else { n * 2 + 70 }, _ => rng.below(200) };
        let other_bits: Vec<bool> = (0..n2).map(|_| rng.chance(1, 2)).collect();
        let other = mk::bv_set_bit(&other_bits);
        let steps = 1 + rng.below(30);
        let mut h = Hd { ctx, cov, calls: 0, panics: 0, what: format!("BitVector len {} density {:?} route {} (mismatching parent len {})", n, d, c % 4, n2) };
        hostile_bv(&mut h, &mut rng, &mut bv, if c % 2 == 0 { Some(&other) } else { None }, steps);
        finish(h, &[2, c as u64, n as u64, steps as u64]);
        ctx.sample(|| format!("bv: BitVector len {} ({:?}, route {}) x {} hostile calls incl. supports used with a parent of length {}", n, d, c % 4, steps, n2));
    }
}

fn hostile_bitvec_like<'a, V>(h: &mut Hd, rng: &mut Rng, name: &str, v: &'a V, steps: usize)
where V: BitVec<'a> + Rank<'a> + Select<'a> + SelectZero<'a> + PredSucc<'a>
{
    for _ in 0..steps {
        let len = v.len();
        let huge1 = v.count_ones() > 1_000_000;
        let (a, cls) = hostile(rng, len);
        let mut r2 = rng.clone();
        match rng.below(14) {
            0 => h.call(&format!("{}::get", name), cls, a, || v.get(a)),
            1 => h.call(&format!("{}::rank", name), cls, a, || v.rank(a)),
            2 => h.call(&format!("{}::rank_zero", name), cls, a, || v.rank_zero(a)),
            3 => h.call(&format!("{}::select", name), cls, a, || v.select(a)),
            4 => h.call(&format!("{}::select_zero", name), cls, a, || v.select_zero(a)),
            5 => h.call(&format!("{}::select_iter", name), cls, a, || take_some_capped(v.select_iter(a), &mut r2, huge1)),
            6 => h.call(&format!("{}::select_zero_iter", name), cls, a, || take_some_capped(v.select_zero_iter(a), &mut r2, len > 1_000_000)),
            7 => h.call(&format!("{}::predecessor", name), cls, a, || take_some_capped(v.predecessor(a), &mut r2, huge1)),
            8 => h.call(&format!("{}::successor", name), cls, a, || take_some_capped(v.successor(a), &mut r2, huge1)),
            9 => h.call(&format!("{}::one_iter", name), "-", 0, || take_some_capped(v.one_iter(), &mut r2, huge1)),
            10 => h.call(&format!("{}::zero_iter", name), "-", 0, || take_some_capped(v.zero_iter(), &mut r2, len > 1_000_000)),
            11 => h.call(&format!("{}::iter", name), "-", 0, || take_some_capped(v.iter(), &mut r2, len > 1_000_000)),
            12 => h.call(&format!("{}::counts", name), "-", 0, || (v.len(), v.count_ones(), v.count_zeros(), v.is_empty())),
            _ => h.call(&format!("{}::supports", name), "-", 0, || (v.supports_rank(), v.supports_select(), v.supports_select_zero(), v.supports_pred_succ())),
        }
    }
}

fn sparse(ctx: &mut Ctx, cov: &mut HashSet<String>) {
    let cases = ctx.size(4000, 40000);
    for c in 0..cases {
        if !ctx.begin_case() { continue; }
        let mut rng: Rng = ctx.rng(0xC08_200 + c as u64);
        let n = match c % 6 { 0 => 0, 1 => 1 + rng.below(3), 2 => 1usize << (10 + rng.below(50)), 3 => usize::MAX - rng.below(3), _ => 1 + rng.below(if cfg!(miri) { 300 } else { 5000 }) };
        let mcount = std::cmp::min(n, match c % 4 { 0 => if n > (1 << 24) { 1 } else { 0 }, 1 => 1 + rng.below(5), _ => 1 + rng.below(if cfg!(miri) { 12 } else { 300 }) });
        let pos = gen::sparse_positions(&mut rng, n, mcount, 4, gen::LAYOUTS[c % 6]);
        let multiset = c % 5 == 0 && !pos.is_empty();
        let values: Vec<usize> = if multiset { let mut v = pos.clone(); v.push(pos[0]); v.push(pos[pos.len() / 2]); v.sort_unstable(); v } else { pos.clone() };
        let built = if multiset { mk::multiset_set(n, &values) } else { mk::sparse_set(n, &values) };
        let sv = match built { Ok(s) => s, Err(_) => continue };
        let sv = if c % 3 == 0 { let mut o: Vec<u8> = Vec::new(); sv.serialize(&mut o).unwrap(); let mut r: &[u8] = &o; SparseVector::load(&mut r).unwrap() } else { sv };
        let steps = 1 + rng.below(30);
        let mut h = Hd { ctx, cov, calls: 0, panics: 0, what: format!("SparseVector n={} m={} multiset={} loaded={}", n, values.len(), multiset, c % 3 == 0) };
        hostile_bitvec_like(&mut h, &mut rng, "SparseVector", &sv, steps);
        if c % 7 == 0 { h.call("SparseVector::enable_*", "-", 0, || { let mut x = sv.clone(); x.enable_rank(); x.enable_select(); x.enable_select_zero(); x.enable_pred_succ(); x == sv }); }
        { let mut r2 = rng.clone(); h.call("SparseVector::one_iter(double-ended)", "-", 0, || take_back(sv.one_iter(), &mut r2)); }
        { let mut r2 = rng.clone(); h.call("SparseVector::iter(double-ended)", "-", 0, || if n <= 100000 { take_back(sv.iter(), &mut r2) } else { 0 }); }
        h.call("SparseVector::is_multiset", "-", 0, || sv.is_multiset());
        // Conversions out of the (possibly multiset) sparse vector, then hostile calls on the results.
        if n <= 200_000 {
            let mut converted: Option<BitVector> = None;
            h.call("BitVector::copy_bit_vec(SparseVector)", "-", 0, || { converted = Some(if c % 2 == 0 { BitVector::copy_bit_vec(&sv) } else { BitVector::from(sv.clone()) }); });
            if let Some(mut bv) = converted {
                let saved = h.what.clone();
                h.what = format!("BitVector converted from {}", saved);
                hostile_bv(h_reborrow(&mut h), &mut rng, &mut bv, None, 10);
                h.what = saved;
            }
            if !multiset { h.call("RLVector::copy_bit_vec(SparseVector)", "-", 0, || { let rv = RLVector::copy_bit_vec(&sv); (rv.len(), rv.count_ones(), rv.one_iter().count()) }); }
        }
        // Builder with hostile calls.
        let (u, cls) = hostile(&mut rng, n);
        let cap = rng.below(6);
        if u <= (1 << 24) || cap > 0 {
            h.call("SparseBuilder::hostile", cls, u, || {
                let mut b = if rng.chance(1, 2) { SparseBuilder::multiset(u, cap) } else { match SparseBuilder::new(u, cap) { Ok(b) => b, Err(_) => return 0 } };
                let mut r3 = rng.clone();
                for _ in 0..8 {
                    let (x, _) = hostile(&mut r3, u);
                    let _ = b.try_set(x);
                    black_box((b.len(), b.capacity(), b.universe(), b.next_index(), b.is_full(), b.is_empty(), b.is_multiset()));
                }
                match SparseVector::try_from(b) { Ok(v) => v.len(), Err(_) => 0 }
            });
        }
        let seq: Vec<usize> = (0..rng.below(8)).map(|_| hostile(&mut rng, 40).0).collect();
        h.call("SparseVector::try_from_iter", "hostile_values", seq.len(), || {
            // Sorted hostile values are accepted only if the universe can be allocated; keep them small when sorted.
            let mut s = seq.clone();
            if s.windows(2).all(|w| w[0] <= w[1]) { for x in s.iter_mut() { *x = std::cmp::min(*x, 1 << 20); } s.sort_unstable(); }
            SparseVector::try_from_iter(s.iter().copied()).map(|v| v.len())
        });
        finish(h, &[3, c as u64, n as u64, steps as u64]);
        ctx.sample(|| format!("sparse: SparseVector n={} m={} (multiset={}) x {} hostile calls + builder + try_from_iter", n, values.len(), multiset, steps));
    }
}

fn run_length(ctx: &mut Ctx, cov: &mut HashSet<String>) {
    let cases = ctx.size(4000, 40000);
    for c in 0..cases {
        if !ctx.begin_case() { continue; }
        let mut rng: Rng = ctx.rng(0xC08_300 + c as u64);
        let nruns = match c % 5 { 0 => 0, 1 => 1, 2 => if cfg!(miri) { 40 } else { 300 + rng.below(50) }, _ => rng.below(if cfg!(miri) { 10 } else { 60 }) };
        let mut runs: Vec<(usize, usize)> = Vec::new();
        let mut pos = 0usize;
        let big = c % 4 == 0;
        for k in 0..nruns {
            let gap = if k == 0 && rng.chance(1, 2) { 0 } else { 1 + (rng.magnitude(if big { 50 } else { 7 }) as usize) };
            let l = 1 + (rng.magnitude(if big { 50 } else { 7 }) as usize);
            runs.push((pos + gap, l));
            pos += gap + l;
        }
        let n = pos + rng.below(100);
        let rv = match mk::rl_runs(n, &runs) { Ok(r) => r, Err(_) => continue };
        let rv = if c % 3 == 0 { let mut o: Vec<u8> = Vec::new(); rv.serialize(&mut o).unwrap(); let mut r: &[u8] = &o; RLVector::load(&mut r).unwrap() } else { rv };
        let steps = 1 + rng.below(30);
        let mut h = Hd { ctx, cov, calls: 0, panics: 0, what: format!("RLVector len={} runs={} loaded={}", n, nruns, c % 3 == 0) };
        hostile_bitvec_like(&mut h, &mut rng, "RLVector", &rv, steps);
        if c % 7 == 0 { h.call("RLVector::enable_*", "-", 0, || { let mut x = rv.clone(); x.enable_rank(); x.enable_select(); x.enable_select_zero(); x.enable_pred_succ(); x == rv }); }
        { let mut r2 = rng.clone(); h.call("RLVector::run_iter", "-", 0, || { let mut it = rv.run_iter(); let mut k = 0; for _ in 0..6 { let r = if r2.chance(1, 3) { it.nth(usize::MAX) } else { it.next() }; if r.is_some() { k += 1; } black_box((it.offset(), it.rank(), it.rank_zero())); } k }); }
        h.call("RLBuilder::hostile", "-", 0, || {
            let mut b = RLBuilder::new();
            let mut r3 = rng.clone();
            for _ in 0..10 {
                let (s, _) = hostile(&mut r3, b.len());
                let (l, _) = hostile(&mut r3, 5);
                if r3.chance(1, 4) { if s <= usize::MAX - 64 { b.set_len(s); } } else { let _ = b.try_set(s, l); }
                black_box((b.len(), b.count_ones(), b.is_empty()));
            }
            if b.len() <= usize::MAX - 64 { RLVector::from(b).len() } else { 0 }
        });
        finish(h, &[4, c as u64, n as u64, steps as u64]);
        ctx.sample(|| format!("rl: RLVector len={} runs={} x {} hostile calls + run_iter + builder", n, nruns, steps));
    }
}

fn wavelet(ctx: &mut Ctx, cov: &mut HashSet<String>) {
    let cases = ctx.size(3000, 30000);
    for c in 0..cases {
        if !ctx.begin_case() { continue; }
        let mut rng: Rng = ctx.rng(0xC08_400 + c as u64);
        let len = match c % 5 { 0 => 0, 1 => 1, 2 => 64 + rng.below(3), _ => rng.below(if cfg!(miri) { 30 } else { 400 }) };
        let width = 1 + rng.below(if cfg!(miri) { 4 } else { 10 });
        let v: Vec<u64> = (0..len).map(|_| rng.next_u64() & ((1u64 << width) - 1)).collect();
        let wm = if c % 3 == 0 { let mut o: Vec<u8> = Vec::new(); WaveletMatrix::from(v.clone()).serialize(&mut o).unwrap(); let mut r: &[u8] = &o; WaveletMatrix::load(&mut r).unwrap() } else { WaveletMatrix::from(v.clone()) };
        let core = WMCore::from(v.clone());
        let steps = 1 + rng.below(30);
        let mut h = Hd { ctx, cov, calls: 0, panics: 0, what: format!("WaveletMatrix len={} width<={} loaded={}", len, width, c % 3 == 0) };
        for _ in 0..steps {
            let (a, cls) = hostile(&mut rng, len);
            let val = match rng.below(6) { 0 => 0, 1 => (1u64 << width) - 1, 2 => 1u64 << width, 3 => u64::MAX, 4 => if len > 0 { v[rng.below(len)] } else { 3 }, _ => rng.next_u64() & 0xFFFF };
            let mut r2 = rng.clone();
            match rng.below(17) {
                0 => h.call("WaveletMatrix::get", cls, a, || wm.get(a)),
                1 => h.call("WaveletMatrix::get_or", cls, a, || wm.get_or(a, 1)),
                2 => h.call("WaveletMatrix::rank", cls, a, || wm.rank(a, val)),
                3 => h.call("WaveletMatrix::select", cls, a, || wm.select(a, val)),
                4 => h.call("WaveletMatrix::inverse_select", cls, a, || wm.inverse_select(a)),
                5 => h.call("WaveletMatrix::select_iter", cls, a, || take_some(wm.select_iter(a, val), &mut r2)),
                6 => h.call("WaveletMatrix::value_iter", "-", 0, || take_some(wm.value_iter(val), &mut r2)),
                7 => h.call("WaveletMatrix::predecessor", cls, a, || take_some(wm.predecessor(a, val), &mut r2)),
                8 => h.call("WaveletMatrix::successor", cls, a, || take_some(wm.successor(a, val), &mut r2)),
                9 => h.call("WaveletMatrix::iter", "-", 0, || take_back(wm.iter(), &mut r2)),
                10 => h.call("WaveletMatrix::contains", "-", 0, || (wm.contains(val), wm.len(), wm.width(), wm.is_empty(), wm.max_len())),
                11 => h.call("WMCore::map_down", cls, a, || core.map_down(a)),
                12 => h.call("WMCore::map_down_with", cls, a, || core.map_down_with(a, val)),
                13 => h.call("WMCore::map_up_with", cls, a, || core.map_up_with(a, val)),
                14 => { let (b, _) = hostile(&mut rng, len); h.call("WMCore::map_down_with_two_positions", cls, a, || core.map_down_with_two_positions(a, b, val)) },
                15 => h.call("WaveletMatrix::set", cls, a, || { let mut w2 = wm.clone(); w2.set(a, val); w2.len() }),
                _ => h.call("WaveletMatrix::into_iter", "-", 0, || take_some(wm.clone().into_iter(), &mut r2)),
            }
        }
        finish(h, &[5, c as u64, len as u64, steps as u64]);
        ctx.sample(|| format!("wm: WaveletMatrix/WMCore len={} width<={} x {} hostile calls", len, width, steps));
    }
}

#[cfg(not(miri))]
fn mapped(ctx: &mut Ctx, cov: &mut HashSet<String>) {
    use simple_sds::int_vector::IntVectorMapper;
    use simple_sds::raw_vector::RawVectorMapper;
    use simple_sds::serialize::{MappedBytes, MappedSlice, MappedStr, MappingMode, MemoryMap, MemoryMapped};
    let cases = ctx.size(600, 6000);
    for c in 0..cases {
        if !ctx.begin_case() { continue; }
        let mut rng: Rng = ctx.rng(0xC08_500 + c as u64);
        // One file: Vec<u64>, bytes, string, RawVector, IntVector (all written by the library).
        let mut vu: Vec<u64> = (0..rng.below(40)).map(|_| rng.next_u64()).collect();
        // Some items are chosen so that, read as the length of a structure that starts at their own position, the usual
        // "offset + 1 + length" bound wraps around (the vector is the first structure: item i is element i + 1 of the file).
        for i in 0..vu.len() {
            let at = (i + 1) as u64;
            match rng.below(9) {
                0 => vu[i] = (u64::MAX - at - 1).wrapping_add(rng.below(4) as u64),          // offset + 1 + len wraps to 0..3
                1 => vu[i] = (1u64 << 63) + rng.below(8) as u64,               // 2 * len wraps (pairs)
                2 => vu[i] = u64::MAX - rng.below(8) as u64,                   // bytes_to_words(len) wraps
                3 => vu[i] = ((u64::MAX / 8) * 8 - 8 * at).wrapping_add(8 * rng.below(3) as u64), // byte length whose word count + offset wraps
                4 => vu[i] = (1u64 << 61) + rng.below(3) as u64,               // 8 * len wraps (bit lengths)
                _ => {},
            }
        }
        let by: Vec<u8> = (0..rng.below(40)).map(|_| rng.next_u64() as u8).collect();
        let st: String = (0..rng.below(40)).map(|i| (b'a' + (i % 26) as u8) as char).collect();
        let bits: Vec<bool> = (0..rng.below(500)).map(|_| rng.chance(1, 2)).collect();
        let raw = mk::raw_set_bit(&bits);
        let width = 1 + rng.below(64);
        let mut iv = IntVector::new(width).unwrap();
        for _ in 0..rng.below(60) { iv.push(rng.next_u64()); }
        let mut bytes: Vec<u8> = Vec::new();
        let mut off: Vec<usize> = Vec::new();
        off.push(bytes.len() / 8); vu.serialize(&mut bytes).unwrap();
        off.push(bytes.len() / 8); by.serialize(&mut bytes).unwrap();
        off.push(bytes.len() / 8); st.serialize(&mut bytes).unwrap();
        off.push(bytes.len() / 8); raw.serialize(&mut bytes).unwrap();
        off.push(bytes.len() / 8); iv.serialize(&mut bytes).unwrap();
        let name = format!("{}/vmon-c08-{}-{}-{}", ctx.tmpdir, std::process::id(), ctx.shard, c);
        std::fs::write(&name, &bytes).unwrap();
        let map = match MemoryMap::new(&name, if c % 2 == 0 { MappingMode::ReadOnly } else { MappingMode::Mutable }) { Ok(m) => m, Err(_) => { let _ = std::fs::remove_file(&name); continue; } };
        let steps = 4 + rng.below(30);
        let mut h = Hd { ctx, cov, calls: 0, panics: 0, what: format!("mapped file of {} elements (Vec<u64> {}, bytes {}, str {}, raw {}, int {}x{})", bytes.len() / 8, vu.len(), by.len(), st.len(), raw.len(), iv.len(), width) };
        let ms = MappedSlice::<u64>::new(&map, off[0]).unwrap();
        let mb = MappedBytes::new(&map, off[1]).unwrap();
        let mst = MappedStr::new(&map, off[2]).unwrap();
        let mr = RawVectorMapper::new(&map, off[3]).unwrap();
        let mi = IntVectorMapper::new(&map, off[4]).unwrap();
        for _ in 0..steps {
            let mut r2 = rng.clone();
            match rng.below(19) {
                0 => { let (a, cls) = hostile(&mut rng, ms.len()); h.call("MappedSlice::index", cls, a, || ms[a]) },
                1 => h.call("MappedSlice::deref", "-", 0, || (ms.iter().copied().fold(0u64, |x, y| x ^ y), ms.len(), ms.is_empty(), ms.as_ref().len())),
                2 => { let (a, cls) = hostile(&mut rng, mb.len()); h.call("MappedBytes::index", cls, a, || mb[a]) },
                3 => h.call("MappedBytes::deref", "-", 0, || (mb.iter().fold(0u8, |x, y| x ^ y), mb.len())),
                4 => h.call("MappedStr::deref", "-", 0, || (mst.chars().count(), mst.len(), mst.is_empty())),
                5 => { let (a, cls) = hostile(&mut rng, mr.len()); h.call("RawVectorMapper::bit", cls, a, || mr.bit(a)) },
                6 => { let (a, cls) = hostile(&mut rng, (mr.len() + 63) / 64); h.call("RawVectorMapper::word", cls, a, || mr.word(a)) },
                7 => h.call("RawVectorMapper::count_ones", "-", 0, || (mr.count_ones(), mr.len(), mr.is_empty(), mr.is_mutable())),
                8 => { let (a, cls) = hostile(&mut rng, mi.len()); h.call("IntVectorMapper::get", cls, a, || mi.get(a)) },
                9 => { let (a, cls) = hostile(&mut rng, mi.len()); h.call("IntVectorMapper::get_or", cls, a, || mi.get_or(a, 3)) },
                10 => h.call("IntVectorMapper::iter", "-", 0, || take_back(mi.iter(), &mut r2)),
                12 => { let (a, cls) = hostile(&mut rng, mr.len()); h.call("RawVectorMapper::set_bit", cls, a, || { let mut m2 = RawVectorMapper::new(&map, off[3]).unwrap(); m2.set_bit(a, true); m2.len() }) },
                13 => { let (a, cls) = hostile(&mut rng, mi.len()); h.call("IntVectorMapper::set", cls, a, || { let mut m2 = IntVectorMapper::new(&map, off[4]).unwrap(); m2.set(a, 1); m2.len() }) },
                14 => h.call("IntVectorMapper::accessors", "-", 0, || { let r: &RawVectorMapper = mi.as_ref(); (r.len(), mi.max_len(), mi.width(), mi.is_empty(), mi.map_offset(), mi.map_len()) }),
                15 => h.call("RawVectorMapper::as_ref", "-", 0, || { let sl: &MappedSlice<u64> = mr.as_ref(); (sl.len(), mr.map_offset(), mr.map_len(), map.filename().to_path_buf(), map.mode(), map.len(), map.is_empty()) }),
                16 => { let (a, cls) = hostile(&mut rng, (mr.len() + 63) / 64); let w = 1 + rng.below(64); h.call("RawVectorMapper::int", cls, a, || if a.checked_add(w).map(|e| e <= mr.len()).unwrap_or(false) { unsafe { mr.int(a, w) } } else { 0 }) },
                17 | 18 => {
                    // Views of EVERY type at ANY offset of the library-written file (whatever the words there mean as a
                    // length): refused or granted, but a granted view must lie inside the mapping.
                    let a = if rng.chance(1, 2) { rng.below(map.len() + 1) } else { hostile(&mut rng, map.len()).0 };
                    let base = { let s: &[u64] = map.as_ref(); s.as_ptr() as usize };
                    let end = base + map.len() * 8;
                    let inside = |p: usize, bytes: usize| p >= base && p.checked_add(bytes).map(|e| e <= end).unwrap_or(false);
                    let mut bad: Option<String> = None;
                    h.call("MemoryMapped::new.any_type", "in", a, || {
                        if let Ok(v) = MappedSlice::<u64>::new(&map, a) { if !inside(v.as_ref().as_ptr() as usize, v.len().saturating_mul(8)) { bad = Some(format!("MappedSlice<u64> of {} items", v.len())); } }
                        if let Ok(v) = MappedSlice::<(u64, u64)>::new(&map, a) { if !inside(v.as_ref().as_ptr() as usize, v.len().saturating_mul(16)) { bad = Some(format!("MappedSlice<(u64,u64)> of {} items", v.len())); } }
                        if let Ok(v) = MappedBytes::new(&map, a) { if !inside(v.as_ref().as_ptr() as usize, v.len()) { bad = Some(format!("MappedBytes of {} bytes", v.len())); } }
                        if let Ok(v) = MappedStr::new(&map, a) { if !inside(v.as_ptr() as usize, v.len()) { bad = Some(format!("MappedStr of {} bytes", v.len())); } }
                        if let Ok(v) = RawVectorMapper::new(&map, a) { let sl: &MappedSlice<u64> = v.as_ref(); if !inside(sl.as_ref().as_ptr() as usize, sl.len().saturating_mul(8)) { bad = Some(format!("RawVectorMapper over {} words", sl.len())); } }
                        if let Ok(v) = IntVectorMapper::new(&map, a) { let r: &RawVectorMapper = v.as_ref(); let sl: &MappedSlice<u64> = r.as_ref(); if !inside(sl.as_ref().as_ptr() as usize, sl.len().saturating_mul(8)) { bad = Some(format!("IntVectorMapper over {} words", sl.len())); } }
                    });
                    if let Some(b) = bad {
                        h.ctx.violation("mapped_view.outside_the_mapping", format!("a view created at element {} of a {}-element mapped file covers memory outside the mapping: {} on {}", a, map.len(), b, h.what));
                    }
                },
                11 | _ => {
                    // New views at hostile offsets (refused or granted, never out of the mapping).
                    let (a, cls) = hostile(&mut rng, map.len());
                    h.call("MemoryMapped::new", cls, a, || {
                        let at_structure = off.contains(&a);
                        // Offsets that are not structure starts may declare absurd lengths: only the type that was written there is requested.
                        if !at_structure && a < map.len() { return 0; }
                        let x = MappedSlice::<u64>::new(&map, a).map(|m| m.len()).unwrap_or(0);
                        let y = if a != off[0] { 0 } else { RawVectorMapper::new(&map, off[3]).map(|m| m.len()).unwrap_or(0) };
                        let z = IntVectorMapper::new(&map, if a >= map.len() { a } else { off[4] }).map(|m| m.len()).unwrap_or(0);
                        x + y + z
                    })
                },
            }
        }
        finish(h, &[6, c as u64, bytes.len() as u64, steps as u64]);
        drop((ms, mb, mst, mr, mi));
        drop(map);
        let _ = std::fs::remove_file(&name);
        ctx.sample(|| format!("mapped: file with 5 structures written by the library, views created at their offsets, {} hostile calls (Index/Deref/bit/word/get with extreme arguments)", steps));
    }
}

#[cfg(miri)]
fn mapped(_: &mut Ctx, _: &mut HashSet<String>) {}

