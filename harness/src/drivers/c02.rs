// C02: Elias-Fano sparse bitvector answers every query exactly (set semantics).
//
// Parts: small (every subset of every universe <= L, all routes), widths (every low width 1..=63, universes up to
// usize::MAX), extremes (m = 0 / 1 / n), selzero (adversarial zero-run layouts driving the binary search and the linear tail).

use simple_sds::bit_vector::BitVector;
use simple_sds::ops::BitVec;
use simple_sds::rl_vector::RLVector;
use simple_sds::serialize::Serialize;
use simple_sds::sparse_vector::SparseVector;

use crate::gen;
use crate::mk;
use crate::models::{Model, SetModel};
use crate::mon::{check_bv, QArgs, QOpts};
use crate::util::{guard, hash64, Ctx, Rng};
use crate::walk;

pub fn run(ctx: &mut Ctx) {
    let part = ctx.part.clone();
    if part.is_empty() || part == "small" { small(ctx); }
    if part.is_empty() || part == "widths" { widths(ctx); }
    if part.is_empty() || part == "extremes" { extremes(ctx); }
    if part.is_empty() || part == "selzero" { selzero(ctx); }
    if part.is_empty() || part == "large" { large(ctx); wide(ctx); }
}

pub fn ser<T: Serialize>(x: &T) -> Vec<u8> {
    let mut out: Vec<u8> = Vec::new();
    x.serialize(&mut out).unwrap();
    out
}

fn check_sparse(ctx: &mut Ctx, route: &str, sv: Result<SparseVector, String>, m: &SetModel, args: &QArgs, opts: &QOpts) -> Option<usize> {
    match sv {
        Ok(sv) => {
            check_bv("sparse", &sv, m, args, opts, ctx);
            ctx.checks += 1;
            match guard(|| sv.is_multiset()) {
                Ok(false) => {},
                Ok(true) => ctx.violation("sparse.is_multiset", format!("is_multiset() = true for distinct positions via {} on {}", route, m.describe())),
                Err(p) => ctx.violation("sparse.is_multiset!panic", format!("is_multiset() panicked ({}) via {} on {}", p, route, m.describe())),
            }
            match walk::sparse_params(&ser(&sv)) {
                Ok((n, ones, w)) => {
                    if n != m.n || ones != m.ones.len() {
                        ctx.violation("sparse.serialized_header", format!("serialized (n, m) = ({}, {}) on {}", n, ones, m.describe()));
                    }
                    ctx.count(&format!("width_seen.{}", w), 1);
                    Some(w)
                },
                Err(e) => { ctx.inconclusive(format!("byte walker failed on a sparse vector: {}", e)); None },
            }
        },
        Err(e) => { ctx.violation("sparse.construct", format!("construction via {} failed ({}) on {}", route, e, m.describe())); None },
    }
}

fn small(ctx: &mut Ctx) {
    let max_n = ctx.size(12, 15);
    let opts = QOpts::default();
    let mut index = 0u64;
    for n in 0..=max_n {
        for code in 0..(1u64 << n) {
            index += 1;
            if !ctx.mine(index) { continue; }
            if !ctx.begin_case() { continue; }
            let bits = gen::pattern(n, code);
            let m = SetModel::from_bits(&bits);
            let mut args = QArgs::all(n, m.count_ones(), m.count_zeros(), 3);
            args.idx.extend(QArgs::extremes());
            args.ranks.extend(QArgs::extremes());
            let args = args.dedup();
            let pos = m.ones.clone();
            check_sparse(ctx, "set", mk::sparse_set(n, &pos), &m, &args, &opts);
            // Other routes: rotate to keep the cost linear.
            match index % 6 {
                5 => { check_sparse(ctx, "set_unchecked", mk::sparse_set_unchecked(n, &pos, false, (index % 4) as usize), &m, &args, &opts); },
                0 => { check_sparse(ctx, "try_set", mk::sparse_try_set(n, &pos), &m, &args, &opts); },
                1 => { check_sparse(ctx, "extend", mk::sparse_extend(n, &pos), &m, &args, &opts); },
                2 => { check_sparse(ctx, "copy.bitvector", guard(|| SparseVector::copy_bit_vec(&mk::bv_set_bit(&bits))), &m, &args, &opts); },
                3 => { check_sparse(ctx, "from.rl", mk::rl_runs(n, &m.runs()).and_then(|rv: RLVector| guard(|| SparseVector::from(rv))), &m, &args, &opts); },
                _ => {
                    if !pos.is_empty() && pos[pos.len() - 1] + 1 == n {
                        let r = guard(|| SparseVector::try_from_iter(pos.iter().copied()).map_err(|e| e.to_string())).and_then(|r| r);
                        check_sparse(ctx, "try_from_iter", r, &m, &args, &opts);
                    } else {
                        check_sparse(ctx, "from.bitvector", guard(|| SparseVector::from(BitVector::from(mk::raw_set_bit(&bits)))), &m, &args, &opts);
                    }
                },
            }
            let ones = pos.len();
            ctx.case(hash64(&[1, n as u64, code]), n <= 1 || (ones > 0 && ones < n));
            ctx.sample(|| format!("small: universe={} positions={:?} x routes x all arguments 0..n+3 and extremes", n, pos));
        }
    }
}

// Independent re-derivation of the documented parameter rule (w ~ log2(n) - log2(m), w >= 1), used only to aim the
// generator; what the library actually chose is read from the serialized bytes.
pub fn predict_width(n: usize, m: usize) -> usize {
    if m == 0 || m > n { return 1; }
    let ideal = ((n as f64) * std::f64::consts::LN_2 / (m as f64)).log2();
    let w = ideal.round();
    if w < 1.0 { 1 } else { w as usize }
}

pub fn universe_for(rng: &mut Rng, w: usize, m: usize) -> Option<usize> {
    // n ~ m * 2^w / ln 2, jittered inside the rounding interval.
    let base = (m as f64) * (2.0f64).powi(w as i32) / std::f64::consts::LN_2;
    for _ in 0..40 {
        let f = 0.78 + (rng.below(50) as f64) / 100.0;
        let n = base * f;
        if n >= 1.8e19 { continue; }
        let mut n = n as usize;
        // Land on or next to a bucket boundary from time to time.
        if w < 63 {
            match rng.below(5) {
                0 => { n = (n >> w) << w; },
                1 => { n = ((n >> w) << w).saturating_add(1); },
                2 => { n = ((n >> w) << w).saturating_sub(1); },
                _ => {},
            }
        }
        if n >= m && n > 0 && predict_width(n, m) == w { return Some(n); }
    }
    None
}

fn sparse_args(m: &SetModel, w: usize, rng: &mut Rng) -> QArgs {
    if m.n <= (if cfg!(miri) { 40 } else { 4096 }) {
        let mut a = QArgs::all(m.n, m.count_ones(), m.count_zeros(), 3);
        a.idx.extend(QArgs::extremes());
        a.ranks.extend(QArgs::extremes());
        return a.dedup();
    }
    // Sample of positions, every bucket boundary next to a sampled position, the ends and the extremes.
    let mut around: Vec<usize> = Vec::new();
    let step = std::cmp::max(1, m.ones.len() / (if cfg!(miri) { 6 } else { 200 }));
    let mut i = 0;
    while i < m.ones.len() { around.push(m.ones[i]); i += step; }
    if let Some(l) = m.ones.last() { around.push(*l); }
    let mut extra: Vec<usize> = Vec::new();
    if w < 64 {
        for &p in around.iter().take(if cfg!(miri) { 4 } else { 120 }) {
            let edge = (p >> w) << w;
            extra.push(edge);
            extra.push(edge.saturating_sub(1));
            if let Some(next) = edge.checked_add(1usize << w) { extra.push(next); extra.push(next - 1); }
        }
    }
    for _ in 0..(if cfg!(miri) { 3 } else { 60 }) { extra.push(rng.range(0, m.n)); }
    around.extend(extra);
    let mut a = QArgs::around(m, &around, true);
    // Zero-side ranks around the gaps.
    for &p in m.ones.iter().step_by(step).take(200) {
        let r = m.rank(p);
        let z = p - r;
        for d in 0..2usize { a.ranks.push(z.saturating_sub(d)); a.ranks.push(z + d); }
    }
    for _ in 0..(if cfg!(miri) { 3 } else { 60 }) { a.ranks.push(rng.range(0, m.count_zeros())); a.ranks.push(rng.below(m.count_ones() + 1)); }
    a.dedup()
}

fn widths(ctx: &mut Ctx) {
    let reps = ctx.size(24, 120);
    let opts = QOpts { iter_limit: 5000, ..QOpts::default() };
    let mut index = 0u64;
    for w in 1..=63usize {
        for rep in 0..reps {
            index += 1;
            if !ctx.mine(index) { continue; }
            if !ctx.begin_case() { continue; }
            let mut rng = ctx.rng(0xC2_0000 + index);
            // Number of ones: bounded so that n fits into usize and the vector stays small.
            let max_m = if w >= 63 { 1 } else { std::cmp::min(3000usize, (0.69 * (2.0f64).powi(64 - w as i32)) as usize) };
            let max_m = std::cmp::max(1, max_m / ctx.scale);
            let m_target = match rep % 6 { 0 => 1, 1 => 2, 2 => std::cmp::min(max_m, 17), 3 => std::cmp::min(max_m, 1 + rng.below(60)), 4 => std::cmp::min(max_m, 200 + rng.below(800)), _ => 1 + rng.below(max_m) };
            let n = match universe_for(&mut rng, w, m_target) {
                Some(n) => n,
                None => { ctx.count("widths.no_universe_found", 1); continue; },
            };
            let layout = gen::LAYOUTS[(rep / 2) % gen::LAYOUTS.len()];
            let pos = gen::sparse_positions(&mut rng, n, m_target, w, layout);
            if pos.len() != m_target { ctx.count("widths.generator_short", 1); }
            let m = SetModel::new(n, pos);
            let args = sparse_args(&m, w, &mut rng);
            let route = rep % 3;
            let sv = match route { 0 => mk::sparse_set(n, &m.ones), 1 => mk::sparse_try_set(n, &m.ones), _ => mk::sparse_extend(n, &m.ones) };
            let seen = check_sparse(ctx, ["set", "try_set", "extend"][route], sv, &m, &args, &opts);
            if seen == Some(w) { ctx.count("widths.on_target", 1); } else { ctx.count("widths.off_target", 1); }
            let nclass = 64 - (n as u64).leading_zeros() as u64;
            ctx.case(hash64(&[2, seen.unwrap_or(0) as u64, m.ones.len() as u64, nclass, layout as u64, hash64(&m.ones.iter().map(|x| *x as u64).collect::<Vec<u64>>())]), true);
            ctx.sample(|| format!("widths: target w={} observed w={:?} n={} m={} layout={:?} idx_args={} rank_args={}", w, seen, n, m.ones.len(), layout, args.idx.len(), args.ranks.len()));
        }
    }
    // Universes at the very top of the range.
    for (k, &n) in [usize::MAX, usize::MAX - 1, usize::MAX - 2, 1usize << 63, (1usize << 63) + 1, (1usize << 63) - 1].iter().enumerate() {
        for &mm in &[0usize, 1, 2, 3, 40] {
            index += 1;
            if !ctx.mine(index) { continue; }
            if !ctx.begin_case() { continue; }
            if mm == 0 { continue; } // m = 0 needs n/2 bits: covered (bounded by memory) in `extremes`.
            let mut rng = ctx.rng(0xC2_8000 + index);
            let w = predict_width(n, mm);
            let layout = gen::LAYOUTS[k % gen::LAYOUTS.len()];
            let mut pos = gen::sparse_positions(&mut rng, n, mm, w, layout);
            if mm >= 2 { pos[0] = 0; let l = pos.len(); pos[l - 1] = n - 1; pos.sort_unstable(); pos.dedup(); }
            let m = SetModel::new(n, pos);
            let args = sparse_args(&m, w, &mut rng);
            let seen = check_sparse(ctx, "set", mk::sparse_set(n, &m.ones), &m, &args, &opts);
            ctx.case(hash64(&[3, n as u64, mm as u64, seen.unwrap_or(0) as u64]), true);
            ctx.sample(|| format!("widths/top: n={} m={} observed w={:?}", n, m.ones.len(), seen));
        }
    }
}

fn extremes(ctx: &mut Ctx) {
    let opts = QOpts { iter_limit: 70000, ..QOpts::default() };
    let mut index = 0u64;
    // m = 0 for universes up to 2^27 (the format spends n/2 bits on buckets), m = 1 anywhere, m = n up to 2^16.
    let max_log = ctx.size(24, 27);
    for log in 0..=max_log {
        for d in [-1i64, 0, 1] {
            let n = ((1u64 << log) as i64 + d) as usize;
            index += 1;
            if !ctx.mine(index) { continue; }
            if !ctx.begin_case() { continue; }
            let mut rng = ctx.rng(0xC2_9000 + index);
            let m = SetModel::new(n, Vec::new());
            let args = sparse_args(&m, 1, &mut rng);
            check_sparse(ctx, "set", mk::sparse_set(n, &m.ones), &m, &args, &opts);
            ctx.case(hash64(&[4, n as u64]), true);
            ctx.sample(|| format!("extremes: n={} m=0", n));
            if n > 0 {
                for &p in &[0usize, n - 1, n / 2] {
                    let m = SetModel::new(n, vec![p]);
                    let w = predict_width(n, 1);
                    let args = sparse_args(&m, w, &mut rng);
                    check_sparse(ctx, "set", mk::sparse_set(n, &m.ones), &m, &args, &opts);
                    ctx.case(hash64(&[5, n as u64, p as u64]), true);
                }
            }
            if log <= 16 {
                let m = SetModel::new(n, (0..n).collect());
                let args = sparse_args(&m, 1, &mut rng);
                check_sparse(ctx, "set", mk::sparse_set(n, &m.ones), &m, &args, &opts);
                ctx.case(hash64(&[6, n as u64]), true);
                if n > 2 {
                    // All but one.
                    let hole = rng.below(n);
                    let m = SetModel::new(n, (0..n).filter(|i| *i != hole).collect());
                    let args = sparse_args(&m, 1, &mut rng);
                    check_sparse(ctx, "set", mk::sparse_set(n, &m.ones), &m, &args, &opts);
                    ctx.case(hash64(&[7, n as u64, hole as u64]), true);
                }
            }
        }
    }
}

// Large clustered vectors: the embedded high bitvector gets dense superblocks followed by a long one (and vice versa).
fn large(ctx: &mut Ctx) {
    if cfg!(miri) { return; }
    let opts = QOpts { iter_limit: 0, ..QOpts::default() };
    let cases = ctx.size(4, 24);
    for c in 0..cases {
        if !ctx.mine(c as u64) { continue; }
        if !ctx.begin_case() { continue; }
        let mut rng = ctx.rng(0xC2_B000 + c as u64);
        let cluster = 140_000 + rng.below(60_000);
        let n: usize = 1usize << (34 + rng.below(8));
        let mut pos: Vec<usize> = Vec::with_capacity(2 * cluster + 10);
        match c % 3 {
            0 => { for i in 0..cluster { pos.push(i); } for i in 0..cluster { pos.push(n - cluster + i); } },
            1 => { let start = n / 3; for i in 0..2 * cluster { pos.push(start + i); } for k in 0..5000 { pos.push(start + 2 * cluster + (k + 1) * (n / 3 / 5001)); } },
            _ => { for k in 0..6000 { pos.push(k * (n / 4 / 6000)); } for i in 0..2 * cluster { pos.push(n / 2 + 2 * i); } },
        }
        pos.sort_unstable(); pos.dedup();
        let m = SetModel::new(n, pos);
        let w = predict_width(n, m.ones.len());
        let mut a = sparse_args(&m, w, &mut rng);
        // Ranks on both sides of every multiple of 4096 in the high bitvector's terms (ones) and around the cluster edges.
        let mut r = 0; while r < m.ones.len() + 4096 { for d in 0..2usize { a.ranks.push(r.saturating_sub(d)); a.ranks.push(r + d); } r += 4096; }
        for k in 0..200 { let i = (k * m.ones.len()) / 200; a.idx.push(m.ones[i]); a.idx.push(m.ones[i] + 1); a.ranks.push(i); }
        let a = a.dedup();
        let seen = check_sparse(ctx, "set", mk::sparse_set(n, &m.ones), &m, &a, &opts);
        ctx.case(hash64(&[9, n as u64, m.ones.len() as u64, c as u64]), true);
        ctx.sample(|| format!("large: n={} m={} (clusters of ~{} consecutive values, shape {}) observed w={:?} idx_args={} rank_args={}", n, m.ones.len(), cluster, c % 3, seen, a.idx.len(), a.ranks.len()));
    }
}

// Vectors laid out in terms of the upper-bits bitvector `high` (a 1 per value, a 0 per bucket): select superblocks of
// its ones (values) or of its zeros (buckets) get prescribed spans around the long/short threshold T = bit_len(|high|)^4
// and around the largest power of two below T - short superblocks whose block samples hold the widest offsets a short
// superblock can have - with dense superblocks in between so that the parameter rule picks the intended low width.
fn wide(ctx: &mut Ctx) {
    if cfg!(miri) { return; }
    let opts = QOpts { iter_limit: 0, ..QOpts::default() };
    let cases = ctx.size(2, 8);
    let w = 20usize;
    for c in 0..cases {
        if !ctx.mine(100 + c as u64) { continue; }
        if !ctx.begin_case() { continue; }
        let mut rng = ctx.rng(0xC2_C000 + c as u64);
        let zero_side = c % 2 == 1;
        let shape = if cases <= 2 { 4 } else { c / 2 };
        let t = 21usize * 21 * 21 * 21; // |high| stays between 2^20 and 2^21
        let wide_spans = [t - 1, 131_072, 131_073 + rng.below(50_000), 131_071, t];
        // Dense superblocks between, before and after the wide ones; as many as the parameter rule needs.
        let mut spans: Vec<usize> = Vec::new();
        let fillers = if zero_side { 215 + rng.below(10) } else { 105 + rng.below(15) };
        let mut placed_wide = 0;
        for f in 0..fillers {
            if placed_wide < wide_spans.len() && (f == 0 && c % 4 < 2 || f == 7 + 11 * placed_wide) { spans.push(wide_spans[placed_wide]); placed_wide += 1; }
            spans.push(4096 + rng.below(if zero_side { 40 } else { 200 }));
        }
        while placed_wide < wide_spans.len() { spans.push(wide_spans[placed_wide]); placed_wide += 1; }
        let high = gen::superblock_spans(&mut rng, &spans, shape, zero_side);
        // Values from the layout: bucket = zeros before the 1, low parts increasing inside a bucket.
        let buckets = high.iter().filter(|b| !**b).count();
        let n = buckets << w;
        let mut pos: Vec<usize> = Vec::with_capacity(high.len() - buckets);
        let (mut bucket, mut in_bucket) = (0usize, 0usize);
        let mut wide_edges: Vec<usize> = Vec::new();
        for &b in high.iter() {
            if b { pos.push((bucket << w) + in_bucket * 5 + (bucket % 5)); in_bucket += 1; } else { bucket += 1; in_bucket = 0; if bucket % 64 == 0 { wide_edges.push(bucket << w); } }
        }
        let m = SetModel::new(n, pos);
        if predict_width(n, m.ones.len()) != w {
            ctx.inconclusive(format!("wide: layout with {} values and {} buckets does not make the parameter rule choose width {}", m.ones.len(), buckets, w));
            continue;
        }
        let mut a = sparse_args(&m, w, &mut rng);
        // Ones side: ranks at every block of 64 values (+-1); zero side: positions at every 64th bucket edge (+-1).
        let mut r = 0; while r < m.ones.len() + 64 { for d in 0..2usize { a.ranks.push(r.saturating_sub(d)); a.ranks.push(r + d); } r += if zero_side { 4096 } else { 64 }; }
        let step = if zero_side { 1 } else { 16 };
        for e in wide_edges.iter().step_by(step) { a.idx.push(*e); a.idx.push(e.saturating_sub(1)); a.idx.push(e + 1); }
        for _ in 0..3000 { let i = rng.below(m.ones.len()); a.idx.push(m.ones[i]); a.idx.push(m.ones[i] + 1); a.ranks.push(i); }
        let a = a.dedup();
        let seen = check_sparse(ctx, "set", mk::sparse_set(n, &m.ones), &m, &a, &opts);
        if seen != Some(w) { ctx.inconclusive(format!("wide: the library chose low width {:?}, the layout was made for {}", seen, w)); }
        ctx.count(if zero_side { "wide.zero_side_cases" } else { "wide.one_side_cases" }, 1);
        ctx.case(hash64(&[10, n as u64, m.ones.len() as u64, c as u64]), true);
        ctx.sample(|| format!("wide: |high|={} values={} buckets={} w={:?}: select superblocks of the {} of `high` with spans {:?} (T={}), shape {}; idx_args={} rank_args={}", high.len(), m.ones.len(), buckets, seen, if zero_side { "zeros" } else { "ones" }, wide_spans, t, shape, a.idx.len(), a.ranks.len()));
    }
}

fn selzero(ctx: &mut Ctx) {
    let cases = ctx.size(40, 400);
    let opts = QOpts { iter_limit: 3000, ..QOpts::default() };
    for c in 0..cases {
        if !ctx.begin_case() { continue; }
        let mut rng = ctx.rng(0xC2_A000 + c as u64);
        // `runs` zero-runs of wildly different lengths separated by short or long runs of ones.
        let runs = match c % 5 { 0 => 17, 1 => 18 + rng.below(30), 2 => 33, 3 => 100 + rng.below(400), _ => 1000 + rng.below(3000) };
        let mut pos: Vec<usize> = Vec::new();
        let mut p: usize = 0;
        let mut run_starts: Vec<usize> = Vec::new();
        for r in 0..runs {
            let zl = match rng.below(6) { 0 => 1, 1 => 2, 2 => 1 + rng.below(64), 3 => 1000 + rng.below(100000), 4 => if r % 7 == 0 { 1usize << (20 + rng.below(20)) } else { 3 }, _ => 1 + rng.below(5) };
            if r > 0 || rng.chance(1, 2) { run_starts.push(p); p += zl; }
            let ol = match rng.below(4) { 0 => 1, 1 => 1 + rng.below(3), 2 => 1 + rng.below(40), _ => 1 };
            for _ in 0..ol { pos.push(p); p += 1; }
        }
        let tail = if rng.chance(1, 2) { rng.below(1000) } else { 0 };
        if tail > 0 { run_starts.push(p); }
        let mut n = p + tail;
        // Every third case sits at the very top of a universe next to 2^64 (behind one enormous zero run): the
        // values then fall into the topmost buckets, where bucket limits computed by shifting wrap around.
        if c % 3 == 2 {
            let top: usize = match (c / 3) % 5 { 0 => usize::MAX, 1 => usize::MAX - 1, 2 => usize::MAX - rng.below(1 << 16), 3 => (1usize << 63) + rng.below(1 << 30), _ => usize::MAX - (1usize << (8 + rng.below(40))) };
            let shift = top - n;
            for x in pos.iter_mut() { *x += shift; }
            for x in run_starts.iter_mut() { *x += shift; }
            run_starts.insert(0, 0);
            n = top;
        }
        let m = SetModel::new(n, pos);
        let w = predict_width(n, m.ones.len());
        // Ranks at every zero-run boundary -1/0/+1.
        let mut a = sparse_args(&m, w, &mut rng);
        for &s in run_starts.iter() {
            let z = s - m.rank(s);
            for d in 0..2usize { a.ranks.push(z.saturating_sub(d)); a.ranks.push(z + d); }
            a.idx.push(s); a.idx.push(s.saturating_sub(1)); a.idx.push(s + 1);
        }
        let a = a.dedup();
        let snap = mk::probe_snapshot();
        check_sparse(ctx, "set", mk::sparse_set(n, &m.ones), &m, &a, &opts);
        mk::probe_delta(ctx, "selzero", &snap);
        ctx.case(hash64(&[8, runs as u64, n as u64, m.ones.len() as u64, hash64(&m.ones.iter().map(|x| *x as u64).collect::<Vec<u64>>())]), true);
        ctx.sample(|| format!("selzero: n={} ones={} zero-runs={} rank_args={}", n, m.ones.len(), run_starts.len(), a.ranks.len()));
    }
}
