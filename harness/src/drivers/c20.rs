// C20: temporary file names are unique within a process under concurrent use.
//
// Each history is unambiguous because the counter is part of the name: sorting the returned names by counter
// reconstructs the linearization, from which the number of thread switches and a digest of the thread-id sequence
// (the interleaving actually observed) are computed.

use simple_sds::serialize;

use std::collections::HashSet;
use std::sync::{Arc, Barrier};

use crate::util::{hash64, Ctx, Rng};

// Name parts of different argument classes (dots, leading dot, spaces, empty, non-ASCII, long).
const NAME_PARTS: [&str; 10] = ["vmon-c20", "graph.sds", "archive.tar.gz", ".hidden", "with space", "", "ünïcödé", "trailing.", "a", "a-rather-long-name-part-for-a-temporary-file-0123456789"];

// Child entry point: the very first calls of a fresh process, made concurrently. Prints every name.
pub fn child(kv: &std::collections::BTreeMap<String, String>) -> ! {
    let threads: usize = kv.get("threads").and_then(|x| x.parse().ok()).unwrap_or(16);
    let calls: usize = kv.get("calls").and_then(|x| x.parse().ok()).unwrap_or(4);
    let part = kv.get("part").cloned().unwrap_or_else(|| "fresh".to_string());
    if kv.get("mode").map(|m| m == "tmpdir").unwrap_or(false) {
        // The temporary directory changes and changes back while the process lives (TMPDIR is read on every call).
        let base = kv.get("base").cloned().unwrap_or_else(|| "/tmp".to_string());
        let dirs = [format!("{}/vmon-c20-a", base), format!("{}/vmon-c20-b", base), format!("{}/vmon-c20-a", base), base.clone(), format!("{}/vmon-c20-b", base), format!("{}/vmon-c20-a", base)];
        for d in dirs.iter() {
            let _ = std::fs::create_dir_all(d);
            std::env::set_var("TMPDIR", d);
            let handles: Vec<_> = (0..4).map(|_| { let part = part.clone(); std::thread::spawn(move || (0..calls).map(|_| serialize::temp_file_name(&part).to_string_lossy().to_string()).collect::<Vec<String>>()) }).collect();
            for h in handles { for n in h.join().unwrap() { println!("NAME {}", n); } }
        }
        std::process::exit(0);
    }
    let go = Arc::new(std::sync::atomic::AtomicBool::new(false));
    let ready = Arc::new(std::sync::atomic::AtomicUsize::new(0));
    let mut handles = Vec::new();
    for _ in 0..threads {
        let (go, ready, part) = (go.clone(), ready.clone(), part.clone());
        handles.push(std::thread::spawn(move || {
            ready.fetch_add(1, std::sync::atomic::Ordering::SeqCst);
            while !go.load(std::sync::atomic::Ordering::SeqCst) { std::hint::spin_loop(); }
            (0..calls).map(|_| serialize::temp_file_name(&part).to_string_lossy().to_string()).collect::<Vec<String>>()
        }));
    }
    while ready.load(std::sync::atomic::Ordering::SeqCst) < threads { std::thread::yield_now(); }
    go.store(true, std::sync::atomic::Ordering::SeqCst);
    for h in handles { for n in h.join().unwrap() { println!("NAME {}", n); } }
    std::process::exit(0);
}

// Fresh processes: the first use of the counter is a regime of its own.
fn fresh_processes(ctx: &mut Ctx) {
    if cfg!(miri) { return; }
    let exe = match std::env::current_exe() { Ok(e) => e, Err(e) => { ctx.inconclusive(format!("current_exe: {}", e)); return; } };
    let n = ctx.size(24, 100);
    let mut dup_processes = 0u64;
    for k in 0..n {
        if !ctx.begin_case() { continue; }
        let part = NAME_PARTS[k % NAME_PARTS.len()];
        let out = std::process::Command::new(&exe).args(["c20child", "threads=16", "calls=4", &format!("part={}", part)]).output();
        ctx.checks += 1;
        match out {
            Err(e) => { ctx.inconclusive(format!("could not spawn a fresh process: {}", e)); return; },
            Ok(o) => {
                let text = String::from_utf8_lossy(&o.stdout).to_string();
                let names: Vec<&str> = text.lines().filter_map(|l| l.strip_prefix("NAME ")).collect();
                if names.len() != 64 { ctx.inconclusive(format!("fresh process returned {} names (status {:?})", names.len(), o.status.code())); continue; }
                let distinct: HashSet<&str> = names.iter().copied().collect();
                if distinct.len() != names.len() {
                    dup_processes += 1;
                    ctx.violation("temp_file_name.duplicate.first_use", format!("a fresh process whose first 64 calls (16 threads x 4) were concurrent returned only {} distinct paths, e.g. {}", distinct.len(), names[0]));
                }
                for nm in names.iter() {
                    let file = nm.rsplit('/').next().unwrap_or("");
                    if !file.contains(part) { ctx.violation("temp_file_name.name_part", format!("path {} does not contain the name part {:?}", nm, part)); break; }
                }
                ctx.case(hash64(&[0xF5, k as u64, distinct.len() as u64]), true);
            },
        }
    }
    ctx.count("fresh_processes", n as u64);
    ctx.count("fresh_processes_with_duplicates", dup_processes);
}

// Lexical normal form of a path (what the file system will resolve, symlinks aside): "." and empty components dropped.
fn normal(path: &str) -> String {
    let abs = path.starts_with('/');
    let parts: Vec<&str> = path.split('/').filter(|c| !c.is_empty() && *c != ".").collect();
    format!("{}{}", if abs { "/" } else { "" }, parts.join("/"))
}

// Different spellings of the same location, and name parts next to the file-name length limit: the returned paths must
// still name distinct files, whichever thread used whichever spelling.
fn spellings(ctx: &mut Ctx) {
    if cfg!(miri) { return; }
    let tmp = std::env::temp_dir().to_string_lossy().to_string();
    let rounds = ctx.size(6, 40);
    let mut total = 0u64;
    for r in 0..rounds {
        if !ctx.begin_case() { continue; }
        let base = format!("vmon-sp{}", r % 3);
        let long_a: String = std::iter::repeat('L').take(243 + r % 10).collect();
        let parts: Vec<String> = if r % 2 == 0 {
            vec![base.clone(), format!("./{}", base), format!(".//{}", base), format!("{}/{}", tmp, base), format!("{}//{}", tmp, base), base.clone()]
        } else {
            vec![long_a.clone(), long_a.clone(), std::iter::repeat('M').take(300).collect(), long_a.clone()]
        };
        let threads = parts.len();
        let calls = 150 + 50 * (r % 4);
        let barrier = Arc::new(Barrier::new(threads));
        let mut handles = Vec::new();
        for t in 0..threads {
            let (b, part) = (barrier.clone(), parts[t].clone());
            handles.push(std::thread::spawn(move || { b.wait(); (0..calls).map(|_| serialize::temp_file_name(&part).to_string_lossy().to_string()).collect::<Vec<String>>() }));
        }
        let mut seen: HashSet<String> = HashSet::new();
        let mut dup: Option<String> = None;
        let mut missing: Option<String> = None;
        for (t, h) in handles.into_iter().enumerate() {
            match h.join() {
                Ok(v) => for p in v {
                    total += 1;
                    ctx.checks += 1;
                    let key = parts[t].rsplit('/').next().unwrap_or("");
                    if !p.rsplit('/').next().unwrap_or("").contains(key) && missing.is_none() { missing = Some(format!("{} (name part {:?})", p, parts[t])); }
                    if !seen.insert(normal(&p)) && dup.is_none() { dup = Some(p); }
                },
                Err(_) => ctx.violation("temp_file_name!panic", format!("a thread panicked with name part {:?}", parts[t])),
            }
        }
        if let Some(p) = dup { ctx.violation("temp_file_name.duplicate.spelling", format!("two calls returned paths naming the same file: {} (name parts {:?}, {} threads x {} calls)", p, parts.iter().map(|x| if x.len() > 40 { format!("{}…[{} bytes]", &x[..8], x.len()) } else { x.clone() }).collect::<Vec<_>>(), threads, calls)); }
        if let Some(p) = missing { ctx.violation("temp_file_name.name_part", format!("path does not contain the name part: {}", if p.len() > 200 { format!("{}…", &p[..200]) } else { p })); }
        ctx.case(hash64(&[0xF6, r as u64, seen.len() as u64]), true);
    }
    ctx.count("spelling_names", total);
}

// Stale files of an earlier process with the same pid, sitting at numbers this process has not handed out yet: whatever
// the function does about existing files, concurrent callers must still get distinct paths.
fn stale_files(ctx: &mut Ctx) {
    if cfg!(miri) { return; }
    let rounds = ctx.size(3, 20);
    for r in 0..rounds {
        if !ctx.begin_case() { continue; }
        let part = format!("vmon-stale-{}-{}", ctx.shard, r);
        let first = serialize::temp_file_name(&part);
        let dir = match first.parent() { Some(d) => d.to_path_buf(), None => { ctx.inconclusive("temporary file name without a directory".to_string()); return; } };
        let file = first.file_name().map(|f| f.to_string_lossy().to_string()).unwrap_or_default();
        let fields: Vec<&str> = file.rsplitn(3, '_').collect();
        let (count, pid) = match (fields.first().and_then(|x| x.parse::<u64>().ok()), fields.get(1)) { (Some(c), Some(p)) => (c, p.to_string()), _ => { ctx.count("stale.unparsed_names", 1); continue; } };
        let mut created: Vec<std::path::PathBuf> = Vec::new();
        for k in (1..3000u64).filter(|k| k % 2 == 1 || k % 7 == 0) {
            let p = dir.join(format!("{}_{}_{}", part, pid, count + k));
            if std::fs::write(&p, b"stale").is_ok() { created.push(p); }
        }
        let threads = 4 + r % 5;
        let calls = 300;
        let barrier = Arc::new(Barrier::new(threads));
        let handles: Vec<_> = (0..threads).map(|_| { let (b, part) = (barrier.clone(), part.clone()); std::thread::spawn(move || { b.wait(); (0..calls).map(|_| serialize::temp_file_name(&part).to_string_lossy().to_string()).collect::<Vec<String>>() }) }).collect();
        let mut seen: HashSet<String> = HashSet::new();
        seen.insert(first.to_string_lossy().to_string());
        let mut dup: Option<String> = None;
        let mut total = 0usize;
        for h in handles {
            match h.join() {
                Ok(v) => for p in v { total += 1; ctx.checks += 1; if !p.rsplit('/').next().unwrap_or("").contains(&part) { ctx.violation("temp_file_name.name_part", format!("path {} does not contain the name part {}", p, part)); } if !seen.insert(p.clone()) && dup.is_none() { dup = Some(p); } },
                Err(_) => ctx.violation("temp_file_name!panic", "a thread panicked while stale files were present".to_string()),
            }
        }
        for p in created.iter() { let _ = std::fs::remove_file(p); }
        if let Some(p) = dup { ctx.violation("temp_file_name.duplicate.stale_files", format!("path {} was returned twice ({} threads x {} calls) while {} stale files with future numbers were present", p, threads, calls, created.len())); }
        ctx.case(hash64(&[0xF7, r as u64, total as u64, created.len() as u64]), true);
        ctx.sample(|| format!("stale: {} files named like future results pre-created, {} threads x {} calls", created.len(), threads, calls));
    }
}

// A process whose temporary directory changes and changes back (TMPDIR): names handed out during the first visit
// must not come back during the second.
fn tmpdir_round_trip(ctx: &mut Ctx) {
    if cfg!(miri) { return; }
    let exe = match std::env::current_exe() { Ok(e) => e, Err(e) => { ctx.inconclusive(format!("current_exe: {}", e)); return; } };
    for k in 0..ctx.size(3, 12) {
        if !ctx.begin_case() { continue; }
        let part = NAME_PARTS[k % NAME_PARTS.len()];
        let out = std::process::Command::new(&exe).args(["c20child", "mode=tmpdir", "calls=25", &format!("part={}", part), &format!("base={}", ctx.tmpdir)]).output();
        ctx.checks += 1;
        match out {
            Err(e) => { ctx.inconclusive(format!("could not spawn a process: {}", e)); return; },
            Ok(o) => {
                let text = String::from_utf8_lossy(&o.stdout).to_string();
                let names: Vec<&str> = text.lines().filter_map(|l| l.strip_prefix("NAME ")).collect();
                if names.len() != 600 { ctx.inconclusive(format!("tmpdir child returned {} names (status {:?})", names.len(), o.status.code())); continue; }
                let mut seen: HashSet<String> = HashSet::new();
                for nm in names.iter() {
                    if !seen.insert(normal(nm)) { ctx.violation("temp_file_name.duplicate.tmpdir", format!("path {} was returned twice in a process whose TMPDIR went a -> b -> a -> base -> b -> a (name part {:?})", nm, part)); break; }
                }
                ctx.case(hash64(&[0xF8, k as u64, seen.len() as u64]), true);
            },
        }
    }
    let _ = std::fs::remove_dir(format!("{}/vmon-c20-a", ctx.tmpdir));
    let _ = std::fs::remove_dir(format!("{}/vmon-c20-b", ctx.tmpdir));
}

// Names handed out through the library's own caller of temp_file_name (`serialize::test`, which returns the name when
// asked not to remove the file) mixed with direct calls: a call made inside the library counts like any other.
fn through_library_callers(ctx: &mut Ctx) {
    if cfg!(miri) { return; }
    let rounds = ctx.size(6, 30);
    for r in 0..rounds {
        if !ctx.begin_case() { continue; }
        let part = format!("vmon-via-test-{}-{}", ctx.shard, r);
        let threads = 1 + r % 5;
        let calls = 120;
        let barrier = Arc::new(Barrier::new(threads));
        let handles: Vec<_> = (0..threads).map(|t| { let (b, part) = (barrier.clone(), part.clone()); std::thread::spawn(move || {
            b.wait();
            let value: Vec<u64> = vec![t as u64, 7, 77];
            let mut names: Vec<(String, bool)> = Vec::new();
            for k in 0..calls {
                match (k + t) % 4 {
                    0 => names.push((serialize::temp_file_name(&part).to_string_lossy().to_string(), false)),
                    1 => { if let Some(p) = serialize::test(&value, &part, Some(4), false) { names.push((p.to_string_lossy().to_string(), true)); } },
                    2 => { let _ = serialize::test(&value, &part, None, true); },
                    _ => { if let Some(p) = serialize::test(&value, &part, None, false) { names.push((p.to_string_lossy().to_string(), true)); } names.push((serialize::temp_file_name(&part).to_string_lossy().to_string(), false)); },
                }
            }
            names
        }) }).collect();
        let mut seen: HashSet<String> = HashSet::new();
        let mut dup: Option<String> = None;
        let mut files: Vec<String> = Vec::new();
        let mut total = 0usize;
        for h in handles {
            match h.join() {
                Ok(v) => for (p, is_file) in v {
                    total += 1; ctx.checks += 1;
                    if !p.rsplit('/').next().unwrap_or("").contains(&part) { ctx.violation("temp_file_name.name_part", format!("path {} does not contain the name part {}", p, part)); }
                    if !seen.insert(normal(&p)) && dup.is_none() { dup = Some(p.clone()); }
                    if is_file { files.push(p); }
                },
                Err(_) => ctx.violation("temp_file_name.via_test!panic", format!("a thread panicked in serialize::test / temp_file_name (name part {})", part)),
            }
        }
        for f in files.iter() { let _ = std::fs::remove_file(f); }
        if let Some(p) = dup { ctx.violation("temp_file_name.duplicate.via_library_caller", format!("path {} was returned twice: {} thread(s) mixing temp_file_name with serialize::test(.., remove = false / true) on name part {} ({} names)", p, threads, part, total)); }
        ctx.case(hash64(&[0xF9, r as u64, total as u64]), true);
        ctx.sample(|| format!("via library callers: {} thread(s) x {} steps mixing temp_file_name, serialize::test(keep) and serialize::test(remove); {} names", threads, calls, total));
    }
}

pub fn run(ctx: &mut Ctx) {
    tmpdir_round_trip(ctx);
    through_library_callers(ctx);
    fresh_processes(ctx);
    spellings(ctx);
    stale_files(ctx);
    let rounds = ctx.size(50, 150);
    let mut all: HashSet<String> = HashSet::new();
    let mut total_switches = 0u64;
    let mut max_threads = 0usize;
    for r in 0..rounds {
        if !ctx.begin_case() { continue; }
        let mut rng: Rng = ctx.rng(0xC20_000 + r as u64);
        let (threads, calls) = if cfg!(miri) { (2 + rng.below(3), 10 + rng.below(30)) } else {
            match r % 5 { 0 => (64, 10 + rng.below(100)), 1 => (2, 10_000 / ctx.scale), 2 => (16, 1000 / ctx.scale), _ => (2 + rng.below(30), 10 + rng.below(2000 / ctx.scale)) }
        };
        // Once per shard: one long-lived thread that asks for more than 2^20 names while short-lived threads come and go
        // (schemes that hand out per-thread blocks or ranges only collide after many calls from one thread).
        let heavy = !cfg!(miri) && r == 6 && ctx.scale <= 4; // an even round: all threads use the same name part
        let (threads, calls) = if heavy { (9, 8) } else { (threads, calls) };
        max_threads = std::cmp::max(max_threads, threads);
        let same_part = r % 2 == 0;
        let barrier = Arc::new(Barrier::new(threads));
        let mut handles = Vec::new();
        for t in 0..threads {
            let b = barrier.clone();
            let base = NAME_PARTS[(r / 2) % NAME_PARTS.len()];
            // Per-thread parts that are not substrings of one another ("-t1" is a substring of "-t12").
            let part = if same_part { base.to_string() } else { format!("{}-t{:03}t", base, t) };
            handles.push(std::thread::spawn(move || {
                let calls = if heavy && t == 0 { (1usize << 20) + (1 << 16) } else { calls };
                let mut out: Vec<(String, String)> = Vec::with_capacity(calls);
                b.wait();
                for i in 0..calls {
                    let p = serialize::temp_file_name(&part);
                    out.push((part.clone(), p.to_string_lossy().to_string()));
                    if i % 64 == 63 { std::thread::yield_now(); }
                }
                out
            }));
        }
        let mut names: Vec<(usize, String, String)> = Vec::new();
        let mut panicked = false;
        for (t, h) in handles.into_iter().enumerate() {
            match h.join() {
                Ok(v) => { for (part, path) in v { names.push((t, part, path)); } },
                Err(_) => { panicked = true; },
            }
        }
        ctx.checks += 1;
        if panicked { ctx.violation("temp_file_name!panic", format!("a thread panicked in round {} ({} threads x {} calls)", r, threads, calls)); continue; }
        // Uniqueness within the round and against every earlier name of this process; name part contained.
        let mut order: Vec<(u64, usize)> = Vec::with_capacity(names.len());
        for (t, part, path) in names.iter() {
            ctx.checks += 1;
            if !all.insert(path.clone()) {
                ctx.violation("temp_file_name.duplicate", format!("path {} was returned twice in this process (round {}, {} threads x {} calls, thread {})", path, r, threads, calls, t));
            }
            let file = path.rsplit('/').next().unwrap_or("");
            if !file.contains(part.as_str()) {
                ctx.violation("temp_file_name.name_part", format!("path {} does not contain the name part {}", path, part));
            }
            // The counter is the text after the last '_' (used only to reconstruct the observed order).
            if let Some(c) = file.rsplit('_').next().and_then(|x| x.parse::<u64>().ok()) { order.push((c, *t)); }
        }
        order.sort_unstable();
        let seq: Vec<u64> = order.iter().map(|x| x.1 as u64).collect();
        let switches = seq.windows(2).filter(|w| w[0] != w[1]).count() as u64;
        total_switches += switches;
        let mut digest_input: Vec<u64> = vec![threads as u64, calls as u64];
        digest_input.extend(seq.iter().take(4096));
        ctx.case(hash64(&digest_input), switches > 0);
        ctx.sample(|| format!("round: {} threads x {} calls, {} name part: {} names, {} thread switches in the order reconstructed from the counters", threads, calls, if same_part { "same" } else { "per-thread" }, names.len(), switches));
    }
    ctx.count("names_total", all.len() as u64);
    ctx.count("thread_switches_observed", total_switches);
    ctx.count("max_threads", max_threads as u64);
}
