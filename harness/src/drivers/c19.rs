// C19: support structures are optional, rebuildable and never change answers.

use simple_sds::bit_vector::BitVector;
use simple_sds::ops::{Rank, Select, SelectZero, PredSucc};
use simple_sds::serialize::{self, Serialize};
use simple_sds::sparse_vector::SparseVector;
use simple_sds::wavelet_matrix::WaveletMatrix;
use simple_sds::wavelet_matrix::wm_core::WMCore;

use crate::drivers::c02::ser;
use crate::drivers::c04::{check_core, check_wm, ItemType};
use crate::drivers::c14::instances;
use crate::gen;
use crate::mk;
use crate::models::{Model, SetModel};
use crate::mon::{check_bv, QArgs, QOpts};
use crate::util::{guard, hash64, hash_bytes, Ctx, Rng};
use crate::walk::{self, Walker};

pub fn run(ctx: &mut Ctx) {
    if ctx.part.is_empty() || ctx.part == "subsets" { forty_mbit(ctx); }
    let part = ctx.part.clone();
    if part.is_empty() || part == "subsets" { subsets(ctx); }
    if part.is_empty() || part == "composites" { composites(ctx); }
    if part.is_empty() || part == "skip" { skip(ctx); }
}

fn supports(bv: &BitVector) -> (bool, bool, bool) { (bv.supports_rank(), bv.supports_select(), bv.supports_select_zero()) }

fn enable(bv: &mut BitVector, which: usize) {
    match which { 0 => bv.enable_rank(), 1 => bv.enable_select(), _ => bv.enable_select_zero() }
}

fn load_bv(bytes: &[u8]) -> Result<BitVector, String> {
    guard(|| { let mut r: &[u8] = bytes; BitVector::load(&mut r).map_err(|e| e.to_string()) }).and_then(|r| r)
}

const ORDERS: [[usize; 3]; 6] = [[0, 1, 2], [0, 2, 1], [1, 0, 2], [1, 2, 0], [2, 0, 1], [2, 1, 0]];

// One 40 Mbit vector written with rank support only (its samples alone are more than a mebibyte): loads, reports
// exactly that subset, equals what was written, answers rank as before.
fn forty_mbit(ctx: &mut Ctx) {
    if cfg!(miri) || !ctx.mine(0) || !ctx.begin_case() { return; }
    let mut rng = ctx.rng(0xC19_900);
    let (bv, positions, want, ones) = crate::drivers::c06::forty_mbit(&mut rng, 625_000);
    let bytes = ser(&bv);
    match load_bv(&bytes) {
        Ok(loaded) => {
            ctx.expect_eq("supports.load.subset", || "supports_* after loading a 40 Mbit bitvector written with rank support only".to_string(), &guard(|| supports(&loaded)), &(true, false, false));
            ctx.checks += 1;
            if loaded != bv { ctx.violation("supports.load.ne", "a loaded 40 Mbit bitvector (rank support only) is not == to what was written".to_string()); }
            ctx.expect_eq("supports.load.rank", || "rank at 3000 positions of the loaded 40 Mbit bitvector".to_string(), &guard(|| positions.iter().map(|&p| loaded.rank(p)).collect::<Vec<usize>>()), &want);
        },
        Err(e) => ctx.violation("supports.load", format!("loading a 40 Mbit bitvector written with rank support failed: {}", e)),
    }
    ctx.case(hash64(&[9, ones as u64]), true);
    ctx.sample(|| format!("forty_mbit: 40 Mbit bitvector ({} ones) written with rank support only, loaded, compared", ones));
}

fn subsets(ctx: &mut Ctx) {
    let cases = ctx.size(24, 200);
    for c in 0..cases {
        if !ctx.begin_case() { continue; }
        let mut rng: Rng = ctx.rng(0xC19_000 + c as u64);
        // Every fourth vector has long select superblocks (ones or zeros).
        let bits: Vec<bool> = match c % 4 {
            0 if !cfg!(miri) => gen::superblock_mix(&mut rng, 260_000, 5000, 1, 5, 250_000, c % 8 == 0),
            1 => { let n = gen::BOUNDARY_LENGTHS[rng.below(21)]; let d = *rng.pick(&gen::DENSITIES); gen::bits(&mut rng, n, d, gen::Shape::Uniform) },
            _ => { let n = rng.below(if cfg!(miri) { 200 } else { 9000 }); let d = *rng.pick(&gen::DENSITIES); let s = *rng.pick(&gen::SHAPES); gen::bits(&mut rng, n, d, s) },
        };
        let n = bits.len();
        let m = SetModel::from_bits(&bits);
        let what = || format!("bitvector of {} bits with {} ones", n, m.ones.len());
        let mut full = mk::bv_set_bit(&bits);
        mk::enable_all(&mut full);
        let full_bytes = ser(&full);
        let mut around: Vec<usize> = m.ones.iter().copied().step_by(std::cmp::max(1, m.ones.len() / 12)).collect();
        for _ in 0..8 { around.push(rng.below(n + 1)); }
        let args = QArgs::around(&m, &around, false);
        let opts = QOpts { iter_limit: 0, tail: 2, ..QOpts::default() };

        for subset in 0..8usize {
            let mut bv = mk::bv_set_bit(&bits);
            for k in 0..3 { if subset & (1 << k) != 0 { enable(&mut bv, k); } }
            let want = (subset & 1 != 0, subset & 2 != 0, subset & 4 != 0);
            let bytes = ser(&bv);
            // Loading reports exactly the written subset.
            let loaded = match load_bv(&bytes) {
                Ok(l) => l,
                Err(e) => { ctx.violation("supports.load", format!("loading a {} written with supports {:03b} failed: {}", what(), subset, e)); continue; },
            };
            ctx.expect_eq("supports.load.subset", || format!("supports_* after loading a {} written with supports {:03b}", what(), subset), &guard(|| supports(&loaded)), &want);
            ctx.checks += 1;
            if loaded != bv { ctx.violation("supports.load.ne", format!("loaded {} (supports {:03b}) is not == to what was written", what(), subset)); }
            // A fully enabled value of other content overwritten in place with the loaded one (Clone::clone_from): exactly the
            // loaded value - same bits, same subset of supports - and enabling the rest gives the fully enabled original.
            if n <= 20_000 || subset == 5 {
                let mut other_bits: Vec<bool> = bits.iter().map(|b| !*b).collect();
                other_bits.extend_from_slice(&[true, false, true]);
                let mut target = mk::bv_set_bit(&other_bits);
                mk::enable_all(&mut target);
                match guard(|| { target.clone_from(&loaded); (supports(&target), target == loaded, ser(&target) == bytes) }) {
                    Ok(got) => {
                        ctx.checks += 1;
                        if got != (want, true, true) { ctx.violation("supports.clone_from", format!("a fully enabled bitvector overwritten with clone_from(a {} loaded with supports {:03b}): (supports, ==, same bytes) = {:?}", what(), subset, got)); }
                        let _ = guard(|| mk::enable_all(&mut target));
                        ctx.checks += 1;
                        if target != full || ser(&target) != full_bytes { ctx.violation("supports.clone_from.rebuilt", format!("clone_from(a {} loaded with supports {:03b}) and then enabling the rest is not the fully enabled original", what(), subset)); }
                    },
                    Err(p) => ctx.violation("supports.clone_from!panic", format!("{}: {}", what(), p)),
                }
            }
            // enable_pred_succ() as the first enabler: whatever was present, predecessor/successor must work afterwards
            // (it has to bring rank and select along), and enabling the rest must still give the fully enabled original.
            {
                let mut cur = loaded.clone();
                match guard(|| { cur.enable_pred_succ(); (cur.supports_pred_succ(), cur.supports_rank(), cur.supports_select(), cur.supports_select_zero()) }) {
                    Ok(got) => {
                        ctx.checks += 1;
                        let _ = want;
                        if !got.0 { ctx.violation("supports.pred_succ_first.subset", format!("{} written with supports {:03b}: after enable_pred_succ() (pred_succ, rank, select, select_zero) = {:?}", what(), subset, got)); }
                        for &a in around.iter().take(12) {
                            let p = m.ones.partition_point(|x| *x <= a);
                            let want_pred = if p == 0 { None } else { Some((p - 1, m.ones[p - 1])) };
                            let q = m.ones.partition_point(|x| *x < a);
                            let want_succ = m.ones.get(q).map(|x| (q, *x));
                            ctx.expect_eq("supports.pred_succ_first.predecessor", || format!("predecessor({}) right after enable_pred_succ() on a {} written with supports {:03b}", a, what(), subset), &guard(|| cur.predecessor(a).next()), &want_pred);
                            ctx.expect_eq("supports.pred_succ_first.successor", || format!("successor({}) right after enable_pred_succ() on a {} written with supports {:03b}", a, what(), subset), &guard(|| cur.successor(a).next()), &want_succ);
                            if got.1 { ctx.expect_eq("supports.pred_succ_first.rank", || format!("rank({}) right after enable_pred_succ() on a {} written with supports {:03b}", a, what(), subset), &guard(|| cur.rank(a)), &q); }
                        }
                        let _ = guard(|| { cur.enable_select_zero(); cur.enable_rank(); cur.enable_select(); });
                        ctx.checks += 1;
                        if cur != full || ser(&cur) != full_bytes { ctx.violation("supports.pred_succ_first.rebuilt", format!("{} written with supports {:03b}: enable_pred_succ() first, then the rest: not the fully enabled original", what(), subset)); }
                    },
                    Err(p) => ctx.violation("supports.enable!panic", format!("{}: enable_pred_succ() first: {}", what(), p)),
                }
            }
            // Every order of enabling the rest, with a serialize/load between any two steps (chosen by `cut`).
            for (oi, order) in ORDERS.iter().enumerate() {
                if (oi + subset + c) % 2 == 1 && ctx.quick() { continue; }
                if cfg!(miri) && (oi + subset + c) % 6 != 0 { continue; }
                for cut in 0..4usize {
                    if cfg!(miri) && cut != (subset + oi) % 4 { continue; }
                    let mut cur = loaded.clone();
                    let mut ok = true;
                    for (step, &k) in order.iter().enumerate() {
                        if step + 1 == cut {
                            // Round trip in the middle.
                            match load_bv(&ser(&cur)) { Ok(l) => { if l != cur { ctx.violation("supports.midway.ne", format!("{}: intermediate value changed across serialize/load", what())); ok = false; } cur = l; }, Err(e) => { ctx.violation("supports.midway.load", format!("{}: {}", what(), e)); ok = false; } }
                        }
                        if !ok { break; }
                        if let Err(p) = guard(|| enable(&mut cur, k)) { ctx.violation("supports.enable!panic", format!("{}: {}", what(), p)); ok = false; break; }
                        // Idempotent: enabling again changes nothing.
                        let snapshot = cur.clone();
                        let _ = guard(|| enable(&mut cur, k));
                        ctx.checks += 1;
                        if cur != snapshot || ser(&cur) != ser(&snapshot) { ctx.violation("supports.enable.not_idempotent", format!("{}: enabling support {} twice changed the value", what(), k)); ok = false; break; }
                    }
                    if !ok { continue; }
                    let _ = guard(|| cur.enable_pred_succ());
                    ctx.checks += 1;
                    if supports(&cur) != (true, true, true) { ctx.violation("supports.enable.missing", format!("{}: supports after enabling all: {:?}", what(), supports(&cur))); continue; }
                    if cur != full { ctx.violation("supports.rebuilt.ne", format!("{} written with supports {:03b}, rest enabled in order {:?} (round trip before step {}): not == to the fully enabled original", what(), subset, order, cut)); continue; }
                    if ser(&cur) != full_bytes { ctx.violation("supports.rebuilt.bytes", format!("{} written with supports {:03b}, rest enabled in order {:?}: serializes differently from the fully enabled original", what(), subset, order)); continue; }
                    if cut == 0 && oi == subset % 6 {
                        check_bv("bitvector", &cur, &m, &args, &opts, ctx);
                    }
                }
            }
        }
        ctx.case(hash64(&[1, n as u64, hash64(&m.ones.iter().take(5000).map(|x| *x as u64).collect::<Vec<u64>>())]), true);
        ctx.sample(|| format!("subsets: {} x 8 write-time subsets x enable orders x serialize/load at 4 points; idempotence, equality and bytes vs the fully enabled original", what()));
    }
}

// Rewrites a serialized BitVector keeping only the optional supports selected by `keep`.
fn rewrite_bit_vector(w: &mut Walker, out: &mut Vec<u8>, keep: usize) -> Result<(), String> {
    let start = w.pos;
    let _ = w.elem()?;
    w.raw_vector()?;
    out.extend_from_slice(&w.b[start * 8..w.pos * 8]);
    for k in 0..3 {
        let s = w.pos;
        let (present, _, _) = w.option()?;
        if present && keep & (1 << k) != 0 { out.extend_from_slice(&w.b[s * 8..w.pos * 8]); } else { out.extend_from_slice(&0u64.to_le_bytes()); }
    }
    Ok(())
}

fn composites(ctx: &mut Ctx) {
    let cases = ctx.size(40, 400);
    for c in 0..cases {
        if !ctx.begin_case() { continue; }
        let mut rng: Rng = ctx.rng(0xC19_800 + c as u64);
        // Sparse vector: `high` without supports / with any subset of what was written.
        let n = match c % 4 { 0 => rng.below(50), 1 => 1000 + rng.below(5000), 2 => 1usize << (20 + rng.below(30)), _ => 1 + rng.below(100000) };
        let mcount = std::cmp::min(n, match c % 3 { 0 => rng.below(10), 1 => rng.below(if cfg!(miri) { 20 } else { 400 }), _ => rng.below(if cfg!(miri) { 30 } else { 3000 }) });
        // No values in a huge universe would need universe/2 bits of buckets (allocation failure aborts the process).
        let mcount = if n > (1 << 24) { std::cmp::max(mcount, 1) } else { mcount };
        let pos = gen::sparse_positions(&mut rng, n, mcount, 5, gen::LAYOUTS[c % 6]);
        let m = SetModel::new(n, pos);
        if let Ok(sv) = mk::sparse_set(n, &m.ones) {
            let bytes = ser(&sv);
            for keep in 0..8usize {
                if cfg!(miri) && keep % 3 != c % 3 { continue; }
                let rewritten = (|| -> Result<Vec<u8>, String> {
                    let mut w = Walker::new(&bytes);
                    let mut out = Vec::new();
                    walk::copy_elems(&mut w, 1, &mut out)?;
                    rewrite_bit_vector(&mut w, &mut out, keep)?;
                    walk::copy_int_vector(&mut w, &mut out)?;
                    Ok(out)
                })();
                let rewritten = match rewritten { Ok(r) => r, Err(e) => { ctx.inconclusive(format!("walker: {}", e)); continue; } };
                if keep == 0 && walk::strip_sparse(&bytes).ok().as_ref() != Some(&rewritten) { ctx.inconclusive("walker: strip_sparse disagrees with rewrite".to_string()); }
                ctx.checks += 1;
                match guard(|| { let mut r: &[u8] = &rewritten; let v = SparseVector::load(&mut r); (v, r.len()) }) {
                    Ok((Ok(loaded), left)) => {
                        if left != 0 { ctx.violation("composite.sparse.consumed", format!("{} bytes left after loading a sparse vector whose high part keeps supports {:03b}", left, keep)); }
                        if loaded != sv { ctx.violation("composite.sparse.ne", format!("sparse vector loaded from a file whose high part keeps supports {:03b} is not == to the original on {}", keep, m.describe())); }
                        if keep == 0 || keep == 7 {
                            let mut around: Vec<usize> = m.ones.iter().copied().step_by(std::cmp::max(1, m.ones.len() / 20)).collect();
                            around.push(n / 2);
                            let args = QArgs::around(&m, &around, true);
                            check_bv("sparse", &loaded, &m, &args, &QOpts { iter_limit: 3000, ..QOpts::default() }, ctx);
                        }
                    },
                    Ok((Err(e), _)) => ctx.violation("composite.sparse.load", format!("sparse vector whose high part keeps supports {:03b} failed to load ({}) on {}", keep, e, m.describe())),
                    Err(p) => ctx.violation("composite.sparse.load!panic", format!("{} on {}", p, m.describe())),
                }
                // The same file as the body of an optional structure, followed by a sentinel.
                let mut opt: Vec<u8> = ((rewritten.len() / 8) as u64).to_le_bytes().to_vec();
                opt.extend_from_slice(&rewritten);
                opt.extend_from_slice(&0x5E47_1AE1u64.to_le_bytes());
                ctx.checks += 1;
                match guard(|| { let mut r: &[u8] = &opt; let v = Option::<SparseVector>::load(&mut r); let next = u64::load(&mut r).ok(); (v, next) }) {
                    Ok((Ok(Some(loaded)), next)) => {
                        if loaded != sv { ctx.violation("composite.option_sparse.ne", format!("Option<SparseVector> loaded from a file whose high part keeps supports {:03b} is not == to the original on {}", keep, m.describe())); }
                        if next != Some(0x5E47_1AE1u64) { ctx.violation("composite.option_sparse.consumed", format!("after Option<SparseVector> (supports {:03b}) the next element read is {:?}", keep, next)); }
                    },
                    Ok((Ok(None), _)) => ctx.violation("composite.option_sparse.none", format!("Option<SparseVector> with a present body (supports {:03b}) loaded as None", keep)),
                    Ok((Err(e), _)) => ctx.violation("composite.option_sparse.load", format!("Option<SparseVector> whose high part keeps supports {:03b} failed to load ({}) on {}", keep, e, m.describe())),
                    Err(p) => ctx.violation("composite.option_sparse.load!panic", format!("{} on {}", p, m.describe())),
                }
            }
        }
        // Wavelet matrix and core: every level without supports / with a random subset per level.
        let len = match c % 3 { 0 => rng.below(6), 1 => rng.below(if cfg!(miri) { 20 } else { 300 }), _ => if cfg!(miri) { 9 } else { 64 + rng.below(3) } };
        let width = 1 + rng.below(if cfg!(miri) { 3 } else { 9 });
        let v: Vec<u64> = (0..len).map(|_| rng.next_u64() & ((1u64 << width) - 1)).collect();
        let wm = WaveletMatrix::from(v.clone());
        let core = WMCore::from(v.clone());
        let idx: Vec<usize> = (0..std::cmp::min(len, 40) + 3).collect();
        let mut values: Vec<u64> = v.iter().copied().take(6).collect();
        values.extend_from_slice(&[0, 1, (1u64 << width) - 1, 1u64 << width]);
        values.sort_unstable(); values.dedup();
        for variant in 0..3usize {
            let wm_bytes = ser(&wm);
            let rewritten = (|| -> Result<(Vec<u8>, Vec<u8>), String> {
                let mut w = Walker::new(&wm_bytes);
                let mut out = Vec::new();
                walk::copy_elems(&mut w, 1, &mut out)?;
                let core_start = out.len();
                let s = w.pos;
                let levels = w.elem()? as usize;
                out.extend_from_slice(&w.b[s * 8..w.pos * 8]);
                for _ in 0..levels { let keep = match variant { 0 => 0, 1 => 7, _ => rng.below(8) }; rewrite_bit_vector(&mut w, &mut out, keep)?; }
                let core_bytes = out[core_start..].to_vec();
                walk::copy_int_vector(&mut w, &mut out)?;
                Ok((out, core_bytes))
            })();
            let (wm_re, core_re) = match rewritten { Ok(r) => r, Err(e) => { ctx.inconclusive(format!("walker: {}", e)); continue; } };
            ctx.checks += 1;
            match guard(|| { let mut r: &[u8] = &wm_re; let x = WaveletMatrix::load(&mut r); (x, r.len()) }) {
                Ok((Ok(loaded), left)) => {
                    if left != 0 { ctx.violation("composite.wm.consumed", format!("{} bytes left after loading a wavelet matrix (variant {})", left, variant)); }
                    if loaded != wm { ctx.violation("composite.wm.ne", format!("wavelet matrix loaded from a file with support variant {} is not == to the original (V = {:?})", variant, &v[..std::cmp::min(v.len(), 20)])); }
                    check_wm(ctx, &loaded, &v, &idx, &values, "stripped");
                },
                Ok((Err(e), _)) => ctx.violation("composite.wm.load", format!("wavelet matrix with support variant {} failed to load: {}", variant, e)),
                Err(p) => ctx.violation("composite.wm.load!panic", p),
            }
            let mut opt: Vec<u8> = ((wm_re.len() / 8) as u64).to_le_bytes().to_vec();
            opt.extend_from_slice(&wm_re);
            opt.extend_from_slice(&0x5E47_1AE1u64.to_le_bytes());
            ctx.checks += 1;
            match guard(|| { let mut r: &[u8] = &opt; let x = Option::<WaveletMatrix>::load(&mut r); let next = u64::load(&mut r).ok(); (x, next) }) {
                Ok((Ok(Some(loaded)), next)) => {
                    if loaded != wm { ctx.violation("composite.option_wm.ne", format!("Option<WaveletMatrix> loaded from a file with support variant {} is not == to the original", variant)); }
                    if next != Some(0x5E47_1AE1u64) { ctx.violation("composite.option_wm.consumed", format!("after Option<WaveletMatrix> (variant {}) the next element read is {:?}", variant, next)); }
                },
                Ok((Ok(None), _)) => ctx.violation("composite.option_wm.none", format!("Option<WaveletMatrix> with a present body (variant {}) loaded as None", variant)),
                Ok((Err(e), _)) => ctx.violation("composite.option_wm.load", format!("Option<WaveletMatrix> with support variant {} failed to load: {}", variant, e)),
                Err(p) => ctx.violation("composite.option_wm.load!panic", p),
            }
            match guard(|| { let mut r: &[u8] = &core_re; WMCore::load(&mut r) }) {
                Ok(Ok(loaded)) => {
                    ctx.checks += 1;
                    if loaded != core { ctx.violation("composite.core.ne", format!("WMCore loaded from a file with support variant {} is not == to the original", variant)); }
                    check_core(ctx, &loaded, &v, &idx, &values, "stripped");
                },
                Ok(Err(e)) => ctx.violation("composite.core.load", format!("WMCore with support variant {} failed to load: {}", variant, e)),
                Err(p) => ctx.violation("composite.core.load!panic", p),
            }
        }
        let _ = ItemType::U64;
        ctx.case(hash64(&[2, n as u64, m.ones.len() as u64, len as u64, hash64(&v)]), true);
        ctx.sample(|| format!("composites: SparseVector n={} m={} with 8 support subsets of its high part; WaveletMatrix/WMCore len={} width={} with supports absent / present / random per level", n, m.ones.len(), len, width));
    }
}

fn skip(ctx: &mut Ctx) {
    let mut rng = Rng::new(ctx.seed ^ 0xC19_1);
    let insts = instances(&mut rng, false);
    let mut index = 0u64;
    for it in insts.iter() {
        index += 1;
        if !ctx.mine(index) { continue; }
        if !ctx.begin_case() { continue; }
        // Some(x): length element + body; nested: Some(Some(x)); None. Each followed by a sentinel element.
        let elements = (it.bytes.len() / 8) as u64;
        let mut some: Vec<u8> = Vec::new();
        some.extend_from_slice(&elements.to_le_bytes());
        some.extend_from_slice(&it.bytes);
        let mut nested: Vec<u8> = Vec::new();
        nested.extend_from_slice(&(elements + 1).to_le_bytes());
        nested.extend_from_slice(&some);
        for (label, body) in [("Some", &some), ("Some(Some)", &nested)] {
            let mut stream = body.clone();
            stream.extend_from_slice(&0x5E47_1AE1u64.to_le_bytes());
            let r = guard(|| { let mut r: &[u8] = &stream; let ok = serialize::skip_option(&mut r).is_ok(); let next = u64::load(&mut r).ok(); (ok, next, r.len()) });
            ctx.expect_eq("skip_option.lands", || format!("skip_option over {}({}) then the next element", label, it.name), &r, &(true, Some(0x5E47_1AE1u64), 0));
            // The same through readers that return short reads (pipes, buffered files): the position must not depend on it.
            let r = guard(|| { let mut r = crate::drivers::c06::ShortReader { data: &stream, pos: 0, tick: stream.len() }; let ok = serialize::skip_option(&mut r).is_ok(); let next = u64::load(&mut r).ok(); (ok, next, stream.len() - r.pos) });
            ctx.expect_eq("skip_option.lands.short_reads", || format!("skip_option over {}({}) through a short-read reader, then the next element", label, it.name), &r, &(true, Some(0x5E47_1AE1u64), 0));
            let r = guard(|| { let mut r = std::io::BufReader::with_capacity(37, &stream[..]); let ok = serialize::skip_option(&mut r).is_ok(); let next = u64::load(&mut r).ok(); (ok, next) });
            ctx.expect_eq("skip_option.lands.bufreader", || format!("skip_option over {}({}) through a small BufReader, then the next element", label, it.name), &r, &(true, Some(0x5E47_1AE1u64)));
        }
        ctx.case(hash64(&[3, hash_bytes(it.name.as_bytes())]), true);
        ctx.sample(|| format!("skip: optional holding {} ({} elements), plain and nested, followed by a sentinel", it.name, elements));
    }
    // Optional structures written by the library itself (its own size element), whatever they contain: structures whose
    // parts differ in size (a wavelet matrix with skewed levels), stripped or fully supported bitvectors, compressed vectors.
    for k in 0..ctx.size(6, 40) {
        if !ctx.mine(1000 + k as u64) { continue; }
        if !ctx.begin_case() { continue; }
        let mut rng = ctx.rng(0xC19_700 + k as u64);
        let len = if cfg!(miri) { 40 } else { 1500 + rng.below(4000) };
        let skewed: Vec<u64> = (0..len).map(|j| if j == len / 3 { 5 } else if rng.chance(1, 40) { 3 } else { rng.below(3) as u64 }).collect();
        let bits: Vec<bool> = (0..(if cfg!(miri) { 100 } else { 9000 })).map(|_| rng.chance(1, 5)).collect();
        let m = SetModel::from_bits(&bits);
        let mut full = mk::bv_set_bit(&bits);
        mk::enable_all(&mut full);
        let streams: Vec<(&str, Vec<u8>)> = vec![
            ("Option<WaveletMatrix> (skewed levels)", ser(&Some(WaveletMatrix::from(skewed.clone())))),
            ("Option<WMCore> (skewed levels)", ser(&Some(WMCore::from(skewed.clone())))),
            ("Option<BitVector> (all supports)", ser(&Some(full))),
            ("Option<BitVector> (no supports)", ser(&Some(mk::bv_set_bit(&bits)))),
            ("Option<SparseVector>", ser(&Some(mk::sparse_set(m.n, &m.ones).unwrap()))),
            ("Option<RLVector>", ser(&Some(mk::rl_runs(m.n, &m.runs()).unwrap()))),
            ("Option<Option<WaveletMatrix>>", ser(&Some(Some(WaveletMatrix::from(skewed.clone()))))),
        ];
        for (label, body) in streams.iter() {
            let mut stream = body.clone();
            stream.extend_from_slice(&0x5E47_1AE1u64.to_le_bytes());
            let r = guard(|| { let mut r: &[u8] = &stream; let ok = serialize::skip_option(&mut r).is_ok(); let next = u64::load(&mut r).ok(); (ok, next, r.len()) });
            ctx.expect_eq("skip_option.library_written", || format!("skip_option over a library-written {} ({} bytes), then the next element", label, body.len()), &r, &(true, Some(0x5E47_1AE1u64), 0));
        }
        ctx.case(hash64(&[5, k as u64, len as u64]), true);
        ctx.sample(|| format!("skip: library-written optional structures (wavelet matrix of {} skewed items, bitvectors, sparse, run-length, nested) followed by a sentinel", len));
    }
    if ctx.mine(0) && ctx.begin_case() {
        // absent_option writes exactly one zero element, which loads as None and is skipped as one element.
        let r = guard(|| {
            let mut out: Vec<u8> = Vec::new();
            serialize::absent_option(&mut out).unwrap();
            let size = serialize::absent_option_size();
            let none: Option<Vec<u64>> = { let mut r: &[u8] = &out; Option::<Vec<u64>>::load(&mut r).unwrap() };
            let none2: Option<BitVector> = { let mut r: &[u8] = &out; Option::<BitVector>::load(&mut r).unwrap() };
            let mut with_sentinel = out.clone();
            with_sentinel.extend_from_slice(&77u64.to_le_bytes());
            let mut r: &[u8] = &with_sentinel;
            let skipped = serialize::skip_option(&mut r).is_ok();
            let next = u64::load(&mut r).ok();
            (out, size, none.is_none(), none2.is_none(), skipped, next)
        });
        ctx.expect_eq("absent_option", || "absent_option: bytes, size, loads as None (two types), skip, next element".to_string(), &r, &(vec![0u8; 8], 1, true, true, true, Some(77)));
        // A None written by the library is the same single element.
        let none: Option<Vec<u64>> = None;
        ctx.expect_eq("absent_option.same_as_none", || "Option::None serializes as one zero element".to_string(), &guard(|| ser(&none)), &vec![0u8; 8]);
        ctx.case(hash64(&[4]), true);
    }
}
