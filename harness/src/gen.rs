// Workload generators: bit patterns, position lists for huge universes, run lists.

use crate::util::Rng;

pub const BOUNDARY_LENGTHS: [usize; 24] = [
    0, 1, 2, 63, 64, 65, 127, 128, 129, 511, 512, 513, 1023, 1024, 1025, 4095, 4096, 4097, 8191, 8192, 8193, 65535, 65536, 65537,
];

#[derive(Clone, Copy, Debug, PartialEq, Eq)]
pub enum Density { Zero, One1, Sparse64, Half, Dense64, AllButOne, All }

pub const DENSITIES: [Density; 7] = [Density::Zero, Density::One1, Density::Sparse64, Density::Half, Density::Dense64, Density::AllButOne, Density::All];

#[derive(Clone, Copy, Debug, PartialEq, Eq)]
pub enum Shape { Uniform, Clustered, Runs }

pub const SHAPES: [Shape; 3] = [Shape::Uniform, Shape::Clustered, Shape::Runs];

pub fn bits(rng: &mut Rng, n: usize, d: Density, s: Shape) -> Vec<bool> {
    let mut v = vec![false; n];
    if n == 0 { return v; }
    match d {
        Density::Zero => {},
        Density::All => { for b in v.iter_mut() { *b = true; } },
        Density::One1 => { let p = *rng.pick(&[0, n - 1, n / 2, rng.clone().below(n)]); v[p] = true; },
        Density::AllButOne => {
            for b in v.iter_mut() { *b = true; }
            let p = *rng.pick(&[0, n - 1, n / 2, rng.clone().below(n)]);
            v[p] = false;
        },
        Density::Sparse64 | Density::Half | Density::Dense64 => {
            let (num, den) = match d { Density::Sparse64 => (1, 64), Density::Half => (1, 2), _ => (63, 64) };
            match s {
                Shape::Uniform => { for b in v.iter_mut() { *b = rng.chance(num, den); } },
                Shape::Clustered => {
                    // Clusters: regions of 256 bits are either "hot" (dense) or "cold" (almost empty).
                    let mut i = 0;
                    while i < n {
                        let hot = rng.chance(num, den);
                        let l = 64 + rng.below(512);
                        for j in i..std::cmp::min(n, i + l) {
                            v[j] = if hot { rng.chance(15, 16) } else { rng.chance(1, 200) };
                        }
                        i += l;
                    }
                },
                Shape::Runs => {
                    // Alternating runs whose mean lengths give the requested density.
                    let mean1 = match d { Density::Sparse64 => 2, Density::Half => 20, _ => 126 };
                    let mean0 = match d { Density::Sparse64 => 126, Density::Half => 20, _ => 2 };
                    let mut val = rng.chance(1, 2);
                    let mut i = 0;
                    while i < n {
                        let mean = if val { mean1 } else { mean0 };
                        let l = 1 + rng.below(2 * mean);
                        for j in i..std::cmp::min(n, i + l) { v[j] = val; }
                        i += l;
                        val = !val;
                    }
                },
            }
        },
    }
    v
}

// Set positions of a bit pattern.
pub fn positions(bits: &[bool]) -> Vec<usize> {
    bits.iter().enumerate().filter(|(_, b)| **b).map(|(i, _)| i).collect()
}

// Enumerates the bit pattern with index `code` among patterns of length `n` (n < 64).
pub fn pattern(n: usize, code: u64) -> Vec<bool> {
    (0..n).map(|i| (code >> i) & 1 == 1).collect()
}

// A vector of `n` bits that contains long, short and partial select superblocks, for ones (or for zeros if `invert`).
// Layout (in ones): [4096 ones spread evenly over `spread` bits] [4096+ dense ones] [several sparse superblocks] [tail].
pub fn superblock_mix(rng: &mut Rng, spread: usize, dense_ones: usize, sparse_superblocks: usize, tail_ones: usize, tail_span: usize, invert: bool) -> Vec<bool> {
    let mut v: Vec<bool> = Vec::new();
    // Superblock 0: 4096 ones over `spread` bits (long if spread >= log4 of the final length).
    let step = std::cmp::max(1, spread / 4096);
    for i in 0..spread {
        v.push(i % step == 0 && i / step < 4096);
    }
    // Dense region: short superblocks, with a few holes so that word scans have to skip words.
    let mut placed = 0;
    while placed < dense_ones {
        if rng.chance(1, 40) {
            for _ in 0..(64 + rng.below(200)) { v.push(false); }
        }
        let b = rng.chance(9, 10);
        v.push(b);
        if b { placed += 1; }
    }
    // More long superblocks in a row, irregularly spaced, so that the explicit-offset pointer is non-zero.
    for _ in 0..sparse_superblocks {
        for _ in 0..4096 {
            let gap = 60 + rng.below(40);
            for _ in 0..gap { v.push(false); }
            v.push(true);
        }
    }
    // Partial last superblock spread over a long span.
    if tail_ones > 0 {
        let step = std::cmp::max(1, tail_span / tail_ones);
        for i in 0..tail_span {
            v.push(i % step == 0 && i / step < tail_ones);
        }
    }
    // Ragged end so that the last word is partial.
    let extra = rng.below(64);
    for _ in 0..extra { v.push(rng.chance(1, 2)); }
    if invert {
        for b in v.iter_mut() { *b = !*b; }
    }
    v
}

// Superblocks of 4096 ones with prescribed spans (distance from the first one of a superblock to the first one of the
// next). `shape` places the other 4095 ones inside the span: 0 = evenly, 1 = all in the last 8000 bits (every block
// sample of the superblock has a large offset), 2 = dense at the start and the last one at the very end,
// 3 = two clusters with the gap in the middle. A ragged tail follows.
pub fn superblock_spans(rng: &mut Rng, spans: &[usize], shape: usize, invert: bool) -> Vec<bool> {
    let total: usize = spans.iter().sum();
    let mut v = vec![false; total];
    let mut base = 0usize;
    for (k, &span) in spans.iter().enumerate() {
        v[base] = true;
        let sh = if shape == 4 { k % 4 } else { shape };
        let mut placed = 1usize;
        let put = |v: &mut Vec<bool>, p: usize, placed: &mut usize| { if *placed < 4096 && p > 0 && p < span && !v[base + p] { v[base + p] = true; *placed += 1; } };
        match sh {
            0 => { let step = std::cmp::max(1, span / 4096); let mut p = step; while placed < 4096 && p < span { put(&mut v, p, &mut placed); p += step; } },
            1 => { let lo = span.saturating_sub(8000); let mut p = std::cmp::max(lo, 1); while placed < 4096 && p < span { if span - p <= 4096 - placed || rng.chance(3, 5) { put(&mut v, p, &mut placed); } p += 1; } },
            2 => { let mut p = 1; while placed < 4095 && p < span { if rng.chance(3, 4) { put(&mut v, p, &mut placed); } p += 1; } put(&mut v, span - 1, &mut placed); },
            _ => { let mut p = 1; while placed < 2048 && p < span { if rng.chance(1, 2) { put(&mut v, p, &mut placed); } p += 1; } let mut p = std::cmp::max(span.saturating_sub(6000), p); while placed < 4096 && p < span { if span - p <= 4096 - placed || rng.chance(1, 2) { put(&mut v, p, &mut placed); } p += 1; } },
        }
        // Whatever is still missing goes to the free positions at the end of the span.
        let mut p = span - 1;
        while placed < 4096 && p > 0 { put(&mut v, p, &mut placed); p -= 1; }
        base += span;
    }
    // Partial last superblock and a ragged end.
    let tail = 100 + rng.below(3000);
    for _ in 0..tail { v.push(rng.chance(1, 7)); }
    if invert {
        for b in v.iter_mut() { *b = !*b; }
    }
    v
}

//-----------------------------------------------------------------------------

// Sorted distinct positions in 0..n for sparse vectors with huge universes.
#[derive(Clone, Copy, Debug, PartialEq, Eq)]
pub enum Layout { Uniform, Ends, OneBucket, BucketEdges, EmptyStretches, DenseRuns }

pub const LAYOUTS: [Layout; 6] = [Layout::Uniform, Layout::Ends, Layout::OneBucket, Layout::BucketEdges, Layout::EmptyStretches, Layout::DenseRuns];

// `w` is the low width the caller expects (used only to aim at bucket boundaries).
pub fn sparse_positions(rng: &mut Rng, n: usize, m: usize, w: usize, layout: Layout) -> Vec<usize> {
    use std::collections::BTreeSet;
    let mut set: BTreeSet<usize> = BTreeSet::new();
    if n == 0 || m == 0 { return Vec::new(); }
    let m = std::cmp::min(m, n);
    let bucket = if w >= 63 { 1usize << 63 } else { 1usize << w };
    let mut attempts = 0usize;
    match layout {
        Layout::Ends => {
            set.insert(0);
            if set.len() < m { set.insert(n - 1); }
        },
        Layout::OneBucket => {
            // As many values as possible inside one bucket.
            let buckets = n / bucket + 1;
            let b = rng.below(buckets);
            let base = b.saturating_mul(bucket);
            let base = std::cmp::min(base, n - 1);
            let width = std::cmp::min(bucket, n - base);
            while set.len() < std::cmp::min(m, width) && attempts < 20 * m {
                set.insert(base + rng.below(width));
                attempts += 1;
            }
        },
        Layout::BucketEdges => {
            while set.len() < m && attempts < 20 * m {
                let buckets = n / bucket + 1;
                let b = rng.below(buckets);
                let edge = b.saturating_mul(bucket);
                let cand = match rng.below(3) { 0 => edge.saturating_sub(1), 1 => edge, _ => edge.saturating_add(1) };
                if cand < n { set.insert(cand); }
                attempts += 1;
            }
        },
        Layout::EmptyStretches => {
            // Two clumps separated by a long empty stretch.
            let half = m / 2;
            let span = std::cmp::max(1, std::cmp::min(n / 8, m.saturating_mul(4)));
            while set.len() < half && attempts < 20 * m {
                set.insert(rng.below(span));
                attempts += 1;
            }
            while set.len() < m && attempts < 40 * m {
                set.insert(n - 1 - rng.below(span));
                attempts += 1;
            }
        },
        Layout::DenseRuns => {
            while set.len() < m && attempts < 20 * m {
                let start = rng.below(n);
                let l = 1 + rng.below(40);
                for i in 0..l {
                    if set.len() >= m { break; }
                    if let Some(x) = start.checked_add(i) { if x < n { set.insert(x); } }
                }
                attempts += 1;
            }
        },
        Layout::Uniform => {},
    }
    while set.len() < m && attempts < 60 * m + 1000 {
        set.insert(rng.range(0, n - 1));
        attempts += 1;
    }
    // Small universes: fill deterministically if random insertion stalled.
    let mut i = 0;
    while set.len() < m && i < n {
        set.insert(i);
        i += 1;
    }
    set.into_iter().collect()
}

//-----------------------------------------------------------------------------

// Number of 3-bit code units needed for `value` in the run-length code (independent re-derivation: ceil(bit_len / 3)).
pub fn code_units(value: usize) -> usize {
    let mut v = value;
    let mut units = 1;
    while v > 7 {
        v >>= 3;
        units += 1;
    }
    units
}

// A value that needs exactly `units` code units (1..=22), random within the class or at its edges.
pub fn value_with_units(rng: &mut Rng, units: usize) -> usize {
    if units <= 1 { return rng.below(8); }
    let lo: u128 = 1u128 << (3 * (units - 1));
    let hi: u128 = std::cmp::min((1u128 << (3 * units)) - 1, u64::MAX as u128);
    match rng.below(4) {
        0 => lo as usize,
        1 => hi as usize,
        _ => {
            let span = hi - lo;
            (lo + (rng.next_u64() as u128) % (span + 1)) as usize
        },
    }
}

//-----------------------------------------------------------------------------

// An iterator over `items` whose size_hint() is honest but not exact: `kind` selects how loose. The library takes
// iterators in many places (FromIterator, Extend, try_from_iter); what it may rely on is the contract of size_hint
// (lower <= remaining <= upper), never exactness.
#[derive(Clone, Debug)]
pub struct Hinted<T: Copy> { items: Vec<T>, pos: usize, kind: usize }

pub fn hinted<T: Copy>(items: &[T], kind: usize) -> Hinted<T> { Hinted { items: items.to_vec(), pos: 0, kind: kind % 6 } }

impl<T: Copy> Iterator for Hinted<T> {
    type Item = T;
    fn next(&mut self) -> Option<T> { let r = self.items.get(self.pos).copied(); if r.is_some() { self.pos += 1; } r }
    fn size_hint(&self) -> (usize, Option<usize>) {
        let rem = self.items.len() - self.pos;
        match self.kind {
            0 => (rem, Some(rem)),                                  // exact
            1 => (0, Some(rem)),                                    // like filter()
            2 => (rem / 2, Some(rem + rem / 2 + 3)),                // loose on both sides
            3 => (0, None),                                         // knows nothing
            4 => (rem.saturating_sub(1), Some(rem.saturating_add(64))), // almost exact
            _ => (rem, None),                                       // lower bound only
        }
    }
}
