// Construction routes from models to library structures, and probe snapshots.

use simple_sds::bit_vector::BitVector;
use simple_sds::ops::{Rank, Select, SelectZero, PredSucc};
use simple_sds::raw_vector::{RawVector, AccessRaw, PushRaw};
use simple_sds::rl_vector::{RLVector, RLBuilder};
use simple_sds::sparse_vector::{SparseVector, SparseBuilder};

use std::convert::TryFrom;

use crate::util::{guard, Rng, Ctx};

pub fn raw_set_bit(bits: &[bool]) -> RawVector {
    let mut raw = RawVector::with_len(bits.len(), false);
    for (i, b) in bits.iter().enumerate() {
        if *b { raw.set_bit(i, true); }
    }
    raw
}

// Mix of push_bit and push_int with random widths.
pub fn raw_push(bits: &[bool], rng: &mut Rng) -> RawVector {
    let mut raw = RawVector::new();
    let mut i = 0;
    while i < bits.len() {
        if rng.chance(1, 3) {
            raw.push_bit(bits[i]);
            i += 1;
        } else {
            let w = std::cmp::min(1 + rng.below(64), bits.len() - i);
            let mut value: u64 = 0;
            for j in 0..w {
                if bits[i + j] { value |= 1u64 << j; }
            }
            // Garbage above the width must be ignored by push_int.
            if w < 64 && rng.chance(1, 2) { value |= !0u64 << w; }
            unsafe { raw.push_int(value, w); }
            i += w;
        }
    }
    raw
}

// Pushes the bits, interleaved with extra set bits that are popped again (the final content is `bits`).
pub fn raw_push_pop(bits: &[bool], rng: &mut Rng) -> RawVector {
    use simple_sds::raw_vector::PopRaw;
    let mut raw = RawVector::new();
    let mut i = 0;
    loop {
        if rng.chance(1, 4) || i == bits.len() {
            // Set bits pushed behind the content and popped again, one at a time or as integers of any width (so that
            // pops straddle word boundaries and drop whole words): nothing of them may stay behind the length.
            if rng.chance(1, 2) {
                let k = 1 + rng.below(70);
                for _ in 0..k { raw.push_bit(true); }
                for _ in 0..k { let _ = raw.pop_bit(); }
            } else {
                let widths: Vec<usize> = (0..1 + rng.below(3)).map(|_| 1 + rng.below(64)).collect();
                for &w in widths.iter() { unsafe { simple_sds::raw_vector::PushRaw::push_int(&mut raw, !0u64, w); } }
                for &w in widths.iter().rev() { let _ = unsafe { raw.pop_int(w) }; }
            }
        }
        if i == bits.len() { break; }
        raw.push_bit(bits[i]);
        i += 1;
    }
    raw
}

pub fn bv_set_bit(bits: &[bool]) -> BitVector { BitVector::from(raw_set_bit(bits)) }
pub fn bv_push(bits: &[bool], rng: &mut Rng) -> BitVector { BitVector::from(raw_push(bits, rng)) }
// Every length uses another kind of size hint (exact for lengths that are multiples of 6).
pub fn bv_iter(bits: &[bool]) -> BitVector { crate::gen::hinted(bits, bits.len()).collect() }
pub fn bv_push_pop(bits: &[bool], rng: &mut Rng) -> BitVector { BitVector::from(raw_push_pop(bits, rng)) }

pub fn enable_all(bv: &mut BitVector) {
    bv.enable_rank();
    bv.enable_select();
    bv.enable_select_zero();
    bv.enable_pred_succ();
}

pub fn sparse_set(n: usize, pos: &[usize]) -> Result<SparseVector, String> {
    guard(|| {
        let mut b = SparseBuilder::new(n, pos.len()).map_err(|e| e.to_string())?;
        for &p in pos { b.set(p); }
        SparseVector::try_from(b).map_err(|e| e.to_string())
    }).and_then(|r| r)
}

pub fn sparse_try_set(n: usize, pos: &[usize]) -> Result<SparseVector, String> {
    guard(|| {
        let mut b = SparseBuilder::new(n, pos.len()).map_err(|e| e.to_string())?;
        for &p in pos { b.try_set(p).map_err(|e| e.to_string())?; }
        SparseVector::try_from(b).map_err(|e| e.to_string())
    }).and_then(|r| r)
}

pub fn sparse_extend(n: usize, pos: &[usize]) -> Result<SparseVector, String> {
    guard(|| {
        let mut b = SparseBuilder::new(n, pos.len()).map_err(|e| e.to_string())?;
        b.extend(crate::gen::hinted(pos, pos.len() + n % 5));
        SparseVector::try_from(b).map_err(|e| e.to_string())
    }).and_then(|r| r)
}

// The unchecked setter with its contract met (not full, non-decreasing / increasing, below the universe), mixed with
// the checked one.
pub fn sparse_set_unchecked(n: usize, pos: &[usize], multiset: bool, mix: usize) -> Result<SparseVector, String> {
    guard(|| {
        let mut b = if multiset { SparseBuilder::multiset(n, pos.len()) } else { SparseBuilder::new(n, pos.len()).map_err(|e| e.to_string())? };
        for (i, &p) in pos.iter().enumerate() {
            if mix > 0 && i % (mix + 1) == mix { b.try_set(p).map_err(|e| e.to_string())?; } else { unsafe { b.set_unchecked(p); } }
        }
        SparseVector::try_from(b).map_err(|e| e.to_string())
    }).and_then(|r| r)
}

pub fn multiset_set(n: usize, pos: &[usize]) -> Result<SparseVector, String> {
    guard(|| {
        let mut b = SparseBuilder::multiset(n, pos.len());
        for &p in pos { b.try_set(p).map_err(|e| e.to_string())?; }
        SparseVector::try_from(b).map_err(|e| e.to_string())
    }).and_then(|r| r)
}

// Runs given as (start, len); `set_len` is called at the end when n exceeds the end of the last run.
pub fn rl_runs(n: usize, runs: &[(usize, usize)]) -> Result<RLVector, String> {
    guard(|| {
        let mut b = RLBuilder::new();
        for &(s, l) in runs { b.try_set(s, l)?; }
        b.set_len(n);
        Ok(RLVector::from(b))
    }).and_then(|r| r)
}

// The same runs, each split at random points (adjacent pieces must be merged by the builder).
pub fn rl_runs_split(n: usize, runs: &[(usize, usize)], rng: &mut Rng) -> Result<RLVector, String> {
    let mut pieces: Vec<(usize, usize)> = Vec::new();
    for &(s, l) in runs {
        let mut start = s;
        let mut left = l;
        while left > 0 {
            let take = if left == 1 || rng.chance(1, 3) { left } else { 1 + rng.below(left) };
            pieces.push((start, take));
            start += take;
            left -= take;
        }
    }
    rl_runs(n, &pieces)
}

//-----------------------------------------------------------------------------

#[cfg(feature = "probes")]
pub fn probe_snapshot() -> Vec<u64> { simple_sds::verif::counters() }
#[cfg(not(feature = "probes"))]
pub fn probe_snapshot() -> Vec<u64> { Vec::new() }

// Adds the probe deltas since `before` to the context counters under `prefix`.
#[allow(unused_variables)]
pub fn probe_delta(ctx: &mut Ctx, prefix: &str, before: &[u64]) {
    #[cfg(feature = "probes")]
    {
        let now = simple_sds::verif::counters();
        let names = simple_sds::verif::probe_names();
        for (i, n) in names.iter().enumerate() {
            let d = now[i] - before[i];
            if d > 0 { ctx.count(&format!("{}.{}", prefix, n), d); }
        }
    }
}
