// Generic query monitor for the three bitvector types: every answer is compared online with a reference model.

use simple_sds::ops::{BitVec, Rank, Select, SelectZero, PredSucc};

use crate::models::Model;
use crate::util::{guard, arg_class, Ctx};

#[derive(Clone, Debug, Default)]
pub struct QArgs {
    pub idx: Vec<usize>,   // arguments for get / rank / rank_zero / predecessor / successor
    pub ranks: Vec<usize>, // arguments for select / select_zero / select_iter / select_zero_iter
}

#[derive(Clone, Debug)]
pub struct QOpts {
    pub zero_side: bool,   // check select_zero / zero_iter / rank_zero (not for multisets)
    pub iter_limit: usize, // collect whole iterators when they have at most this many items
    pub tail: usize,       // items taken from positioned iterators
    pub get: bool,
}

impl Default for QOpts {
    fn default() -> Self {
        QOpts { zero_side: true, iter_limit: 4096, tail: 3, get: true }
    }
}

impl QArgs {
    // Every argument up to len + extra.
    pub fn all(len: usize, ones: usize, zeros: usize, extra: usize) -> QArgs {
        QArgs {
            idx: (0..len + extra).collect(),
            ranks: (0..std::cmp::max(ones, zeros) + extra).collect(),
        }
    }

    pub fn dedup(mut self) -> QArgs {
        self.idx.sort_unstable();
        self.idx.dedup();
        self.ranks.sort_unstable();
        self.ranks.dedup();
        self
    }

    pub fn extremes() -> Vec<usize> {
        vec![0, 1, (1usize << 63) - 1, 1usize << 63, (1usize << 63) + 1, usize::MAX - 1, usize::MAX]
    }

    // Arguments around the interesting places of a model: every listed position +-2, the ends, and the extreme values.
    pub fn around(m: &dyn Model, positions: &[usize], with_extremes: bool) -> QArgs {
        let n = m.len();
        let mut idx: Vec<usize> = Vec::new();
        for &p in positions {
            for d in 0..=2usize {
                idx.push(p.saturating_sub(d));
                idx.push(p.saturating_add(d));
            }
        }
        for d in 0..=2usize {
            idx.push(n.saturating_sub(d));
            idx.push(n.saturating_add(d));
            idx.push(d);
        }
        idx.push(n.saturating_mul(2));
        idx.push(n / 2);
        let ones = m.count_ones();
        let zeros = m.count_zeros();
        let mut ranks: Vec<usize> = Vec::new();
        for &c in &[ones, zeros] {
            for d in 0..=2usize {
                ranks.push(c.saturating_sub(d));
                ranks.push(c.saturating_add(d));
                ranks.push(d);
            }
            ranks.push(c / 2);
            ranks.push(c.saturating_mul(2));
        }
        if with_extremes {
            idx.extend(QArgs::extremes());
            ranks.extend(QArgs::extremes());
        }
        QArgs { idx, ranks }.dedup()
    }
}

// Creates a positioned iterator and observes (first k items, len() before, len() after), all under one guard.
fn pos_iter<I: Iterator<Item = (usize, usize)> + ExactSizeIterator>(make: impl FnOnce() -> I, k: usize) -> Result<(Vec<(usize, usize)>, usize, usize), String> {
    guard(|| {
        let mut it = make();
        let l0 = it.len();
        let mut items = Vec::new();
        for _ in 0..k {
            match it.next() {
                Some(x) => items.push(x),
                None => break,
            }
        }
        let l1 = it.len();
        (items, l0, l1)
    })
}

fn expected_tail(m: &dyn Model, first: Option<(usize, usize)>, k: usize, zero: bool) -> Vec<(usize, usize)> {
    let mut out = Vec::new();
    if let Some((r, p)) = first {
        out.push((r, p));
        for j in 1..k {
            let rr = r + j;
            let next = if zero { m.select_zero(rr) } else { m.select(rr) };
            match next {
                Some(pp) => out.push((rr, pp)),
                None => break,
            }
        }
    }
    out
}

// Checks every query of `v` against `m`. `label` names the structure type and route in violation signatures.
pub fn check_bv<'a, V>(label: &str, v: &'a V, m: &dyn Model, a: &QArgs, o: &QOpts, ctx: &mut Ctx)
where V: BitVec<'a> + Rank<'a> + Select<'a> + SelectZero<'a> + PredSucc<'a>
{
    let n = m.len();
    let ones = m.count_ones();
    let zeros = m.count_zeros();
    let desc = || m.describe();

    ctx.expect_eq(&format!("{}.len", label), || format!("len() on {}", desc()), &guard(|| v.len()), &n);
    ctx.expect_eq(&format!("{}.count_ones", label), || format!("count_ones() on {}", desc()), &guard(|| v.count_ones()), &ones);
    ctx.expect_eq(&format!("{}.count_zeros", label), || format!("count_zeros() on {}", desc()), &guard(|| v.count_zeros()), &zeros);
    ctx.expect_eq(&format!("{}.is_empty", label), || format!("is_empty() on {}", desc()), &guard(|| v.is_empty()), &(n == 0));

    for &i in &a.idx {
        let cls = arg_class(i, n);
        if o.get && i < n {
            ctx.expect_eq(&format!("{}.get.{}", label, cls), || format!("get({}) on {}", i, desc()), &guard(|| v.get(i)), &m.get(i));
        }
        let r = m.rank(i);
        ctx.expect_eq(&format!("{}.rank.{}", label, cls), || format!("rank({}) on {}", i, desc()), &guard(|| v.rank(i)), &r);
        if o.zero_side && i <= n {
            ctx.expect_eq(&format!("{}.rank_zero.{}", label, cls), || format!("rank_zero({}) on {}", i, desc()), &guard(|| v.rank_zero(i)), &(i - r));
        }

        // predecessor / successor: first item, then consecutive ranks, exact remaining length.
        let want = expected_tail(m, m.pred(i), o.tail, false);
        let got = pos_iter(|| v.predecessor(i), o.tail);
        let want_len = m.pred(i).map(|(r, _)| ones - r).unwrap_or(0);
        let want_l1 = want_len - want.len();
        ctx.expect_eq(&format!("{}.predecessor.{}", label, cls), || format!("predecessor({}) (items, len before, len after) on {}", i, desc()), &got, &(want, want_len, want_l1));

        let want = expected_tail(m, m.succ(i), o.tail, false);
        let got = pos_iter(|| v.successor(i), o.tail);
        let want_len = m.succ(i).map(|(r, _)| ones - r).unwrap_or(0);
        let want_l1 = want_len - want.len();
        ctx.expect_eq(&format!("{}.successor.{}", label, cls), || format!("successor({}) (items, len before, len after) on {}", i, desc()), &got, &(want, want_len, want_l1));
    }

    for &r in &a.ranks {
        let cls = arg_class(r, ones);
        ctx.expect_eq(&format!("{}.select.{}", label, cls), || format!("select({}) on {}", r, desc()), &guard(|| v.select(r)), &m.select(r));
        let want = expected_tail(m, m.select(r).map(|p| (r, p)), o.tail, false);
        let got = pos_iter(|| v.select_iter(r), o.tail);
        let want_l0 = ones.saturating_sub(r);
        let want_l1 = want_l0 - want.len();
        ctx.expect_eq(&format!("{}.select_iter.{}", label, cls), || format!("select_iter({}) (items, len before, len after) on {}", r, desc()), &got, &(want, want_l0, want_l1));

        if o.zero_side {
            let cls = arg_class(r, zeros);
            ctx.expect_eq(&format!("{}.select_zero.{}", label, cls), || format!("select_zero({}) on {}", r, desc()), &guard(|| v.select_zero(r)), &m.select_zero(r));
            let want = expected_tail(m, m.select_zero(r).map(|p| (r, p)), o.tail, true);
            let got = pos_iter(|| v.select_zero_iter(r), o.tail);
            let want_l0 = zeros.saturating_sub(r);
            let want_l1 = want_l0 - want.len();
            ctx.expect_eq(&format!("{}.select_zero_iter.{}", label, cls), || format!("select_zero_iter({}) (items, len before, len after) on {}", r, desc()), &got, &(want, want_l0, want_l1));
        }
    }

    // Whole iterators.
    if ones <= o.iter_limit {
        let want: Vec<(usize, usize)> = (0..ones).map(|r| (r, m.select(r).unwrap())).collect();
        let got = pos_iter(|| v.one_iter(), ones + 3);
        ctx.expect_eq(&format!("{}.one_iter", label), || format!("one_iter() (items, len before, len after) on {}", desc()), &got, &(want, ones, 0));
    } else {
        let want = expected_tail(m, m.select(0).map(|p| (0, p)), o.tail, false);
        let got = pos_iter(|| v.one_iter(), o.tail);
        let l1 = ones - want.len();
        ctx.expect_eq(&format!("{}.one_iter", label), || format!("one_iter() prefix on {}", desc()), &got, &(want, ones, l1));
    }
    if o.zero_side {
        if zeros <= o.iter_limit {
            let want: Vec<(usize, usize)> = (0..zeros).map(|r| (r, m.select_zero(r).unwrap())).collect();
            let got = pos_iter(|| v.zero_iter(), zeros + 3);
            ctx.expect_eq(&format!("{}.zero_iter", label), || format!("zero_iter() (items, len before, len after) on {}", desc()), &got, &(want, zeros, 0));
        } else {
            let want = expected_tail(m, m.select_zero(0).map(|p| (0, p)), o.tail, true);
            let got = pos_iter(|| v.zero_iter(), o.tail);
            let l1 = zeros - want.len();
            ctx.expect_eq(&format!("{}.zero_iter", label), || format!("zero_iter() prefix on {}", desc()), &got, &(want, zeros, l1));
        }
    }
    if n <= o.iter_limit {
        let want: Vec<bool> = (0..n).map(|i| m.get(i)).collect();
        let got = guard(|| {
            let mut it = v.iter();
            let l0 = it.len();
            let mut items = Vec::new();
            for _ in 0..n + 2 {
                match it.next() { Some(x) => items.push(x), None => break }
            }
            (items, l0)
        });
        ctx.expect_eq(&format!("{}.iter", label), || format!("iter() (bits, len) on {}", desc()), &got, &(want, n));
    }
}

// Digest of all answers for a fixed argument list (used to compare a loaded copy with the original).
pub fn query_digest<'a, V>(v: &'a V, a: &QArgs, zero_side: bool) -> Result<u64, String>
where V: BitVec<'a> + Rank<'a> + Select<'a> + SelectZero<'a> + PredSucc<'a>
{
    guard(|| {
        let mut acc: Vec<u64> = vec![v.len() as u64, v.count_ones() as u64];
        let n = v.len();
        for &i in &a.idx {
            if i < n { acc.push(v.get(i) as u64); }
            acc.push(v.rank(i) as u64);
            let mut p = v.predecessor(i);
            match p.next() { Some((r, x)) => { acc.push(r as u64); acc.push(x as u64); }, None => acc.push(u64::MAX) }
            let mut s = v.successor(i);
            match s.next() { Some((r, x)) => { acc.push(r as u64); acc.push(x as u64); }, None => acc.push(u64::MAX) }
        }
        for &r in &a.ranks {
            acc.push(v.select(r).map(|x| x as u64).unwrap_or(u64::MAX));
            if zero_side { acc.push(v.select_zero(r).map(|x| x as u64).unwrap_or(u64::MAX)); }
        }
        crate::util::hash64(&acc)
    })
}
