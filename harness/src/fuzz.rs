// vmon-fuzz: the coverage-guided leg. The same drivers, monitors and oracles as vmon (main.rs), but the decisions of
// one generated case come from the bytes that libFuzzer mutates under coverage feedback, and the process is built with
// AddressSanitizer. One input = one case of the selected driver part:
//
//   bytes 0..2  select the case index of the part (and with it the shape family: the drivers switch on `index % k`);
//   the rest    is handed out by `Ctx::rng` decision by decision (util::Rng byte mode); when it runs out the stream
//               continues pseudo-randomly from a hash of the input, so a case always terminates as in the ordinary legs.
//
// Selected by environment (libFuzzer owns argv): VMON_FUZZ_DRIVER, VMON_FUZZ_PART, VMON_FUZZ_TIER, VMON_FUZZ_SEED,
// VMON_FUZZ_TMP, VMON_FUZZ_CFG. A monitor violation prints `VMON-FUZZ-VIOLATION <json>` and aborts, so that libFuzzer
// stores the input as a crash artifact (= the replay file). At exit the usual VMON-DIGESTS / VMON-RESULT lines are
// printed, with what the fuzzer executed.
#![no_main]

mod util;
mod models;
mod gen;
mod mon;
mod iterhist;
mod mk;
mod walk;
mod drivers;

use std::collections::{BTreeMap, HashSet};
use std::io::Write;

use libfuzzer_sys::fuzz_target;
use util::{Ctx, Tier};

struct State { ctx: Ctx, driver: String, ncases: u64, inputs: u64, short_inputs: u64, lib_panics: u64, overflow_checks: bool }

static mut STATE: Option<State> = None;

fn env(k: &str, d: &str) -> String { std::env::var(k).unwrap_or_else(|_| d.to_string()) }

fn init() -> State {
    let driver = env("VMON_FUZZ_DRIVER", "c05");
    let tier = if env("VMON_FUZZ_TIER", "quick") == "thorough" { Tier::Thorough } else { Tier::Quick };
    let mut ctx = Ctx {
        prop: driver.to_uppercase(), tier, seed: env("VMON_FUZZ_SEED", "1").parse().unwrap_or(1), shard: 0, nshards: 1,
        cfg: env("VMON_FUZZ_CFG", "fuzz"), part: env("VMON_FUZZ_PART", ""), only_case: Some(u64::MAX), scale: 1, tmpdir: env("VMON_FUZZ_TMP", "/tmp"), dir: String::new(),
        evals: 0, checks: 0, digests: HashSet::new(), digest_overflow: 0, samples: Vec::new(), violations: Vec::new(), violation_sigs: HashSet::new(),
        violations_total: 0, counters: BTreeMap::new(), notes: BTreeMap::new(), inconclusive: Vec::new(), case_no: 0, budget: 0, budget_hit: false, fuzz: None,
    };
    util::install_panic_hook();
    match models::self_test(ctx.seed, 600) {
        Ok(n) => ctx.count("model_selftest_comparisons", n),
        Err(e) => { println!("VMON-HARNESS-ERROR {}", e); std::process::exit(2); },
    }
    // Dry run that selects no case: counts the cases of this part.
    if !drivers::run(&driver, &mut ctx) { println!("VMON-HARNESS-ERROR unknown driver {}", driver); std::process::exit(2); }
    let ncases = ctx.case_no;
    if ncases == 0 || ctx.evals != 0 { println!("VMON-HARNESS-ERROR part {:?} of {} has {} cases ({} ran in the dry run)", ctx.part, driver, ncases, ctx.evals); std::process::exit(2); }
    ctx.counters.clear();
    ctx.count("model_selftest_comparisons", 0);
    unsafe { libc::atexit(at_exit); }
    // Measured now: the exit handler runs when thread-local storage is already gone, and the measurement panics on purpose.
    let overflow_checks = util::overflow_checks_on();
    State { ctx, driver, ncases, inputs: 0, short_inputs: 0, lib_panics: 0, overflow_checks }
}

extern "C" fn at_exit() {
    let st = unsafe { (*std::ptr::addr_of_mut!(STATE)).as_mut() };
    let st = match st { Some(s) => s, None => return };
    st.ctx.counters.insert("fuzz.inputs".to_string(), st.inputs);
    st.ctx.counters.insert("fuzz.inputs_too_short".to_string(), st.short_inputs);
    st.ctx.counters.insert("max:fuzz.cases_in_part".to_string(), st.ncases);
    st.ctx.counters.insert("fuzz.library_panics_outside_monitored_calls".to_string(), st.lib_panics);
    let build = format!("{{\"debug_assertions\":{},\"overflow_checks\":{},\"bmi2\":{},\"miri\":false,\"probes\":{},\"bounds\":{},\"fuzz\":true}}",
        cfg!(debug_assertions), st.overflow_checks, cfg!(target_feature = "bmi2"), cfg!(feature = "probes"), cfg!(feature = "bounds"));
    let extra = vec![("build".to_string(), build)];
    let out = std::io::stdout();
    let mut out = out.lock();
    let mut line = String::from("VMON-DIGESTS ");
    let mut first = true;
    for d in st.ctx.digests.iter() {
        if !first { line.push(','); }
        first = false;
        line.push_str(&format!("{:x}", d));
    }
    let _ = writeln!(out, "{}", line);
    let _ = writeln!(out, "VMON-RESULT {}", st.ctx.to_json(&extra));
    let _ = out.flush();
}

fuzz_target!(|data: &[u8]| {
    let slot = unsafe { &mut *std::ptr::addr_of_mut!(STATE) };
    if slot.is_none() { *slot = Some(init()); }
    let st = slot.as_mut().unwrap();
    st.inputs += 1;
    if data.len() < 3 { st.short_inputs += 1; return; }
    let index = (data[0] as u64) | ((data[1] as u64) << 8);
    st.ctx.case_no = 0;
    st.ctx.only_case = Some(1 + index % st.ncases);
    st.ctx.fuzz = Some(std::rc::Rc::new(data[2..].to_vec()));
    let before = st.ctx.violations_total;
    let driver = st.driver.clone();
    let ctx = &mut st.ctx;
    let outcome = std::panic::catch_unwind(std::panic::AssertUnwindSafe(|| drivers::run(&driver, ctx)));
    if outcome.is_err() {
        // Same rule as main.rs: a panic raised in harness code is a harness bug; raised in library code it happened in a call
        // that cannot legitimately panic, and is a violation - except in C08, where a panic is a legal outcome.
        let last = util::last_panic();
        if last.contains("/harness/src/") || last.contains("harness-snap") || last.is_empty() {
            eprintln!("VMON-FUZZ-HARNESS-PANIC {}", last);
            std::process::abort();
        }
        if driver == "c08" {
            st.lib_panics += 1;
        } else {
            let place = last.rsplit(" @ ").next().unwrap_or("").rsplit("/src/").next().unwrap_or("").to_string();
            st.ctx.violation(&format!("library_panic.unguarded.{}", place), format!("the library panicked in a call that cannot legitimately panic (driver {} part {:?}): {}", driver, st.ctx.part, last));
        }
    }
    if st.ctx.violations_total > before {
        for v in st.ctx.violations.iter() {
            eprintln!("VMON-FUZZ-VIOLATION {{\"sig\":{},\"detail\":{}}}", util::jstr(&v.sig), util::jstr(&v.detail));
        }
        at_exit();
        std::process::abort();
    }
});
