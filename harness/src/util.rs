// Shared infrastructure: PRNG, panic capture, per-run context (counters, digests, samples, violations),
// and a tiny JSON emitter (no external crates, so the same source runs under Miri and the sanitizers).

use std::cell::RefCell;
use std::collections::{BTreeMap, HashSet};
use std::fmt::Write as _;
use std::panic::{self, AssertUnwindSafe};

//-----------------------------------------------------------------------------

// Two modes: a SplitMix64 stream (every registered workload), or a byte string supplied by a coverage-guided fuzzer
// (fuzz.rs) that is consumed decision by decision; once the bytes run out the stream continues pseudo-randomly from a
// hash of the bytes, so every generator terminates exactly as it does in the first mode.
#[derive(Clone, Debug)]
pub struct Rng(u64, Option<(std::rc::Rc<Vec<u8>>, usize)>);

impl Rng {
    pub fn new(seed: u64) -> Rng {
        Rng(seed ^ 0x9E37_79B9_7F4A_7C15, None)
    }

    pub fn from_bytes(data: &[u8]) -> Rng {
        Rng(hash_bytes(data) ^ 0x9E37_79B9_7F4A_7C15, Some((std::rc::Rc::new(data.to_vec()), 0)))
    }

    // Bytes of the fuzzer input not yet consumed (0 in the pseudo-random mode).
    pub fn bytes_left(&self) -> usize {
        match &self.1 { Some((d, p)) => d.len().saturating_sub(*p), None => 0 }
    }

    pub fn derive(seed: u64, a: u64, b: u64) -> Rng {
        let mut r = Rng::new(seed.wrapping_mul(0xD6E8_FEB8_6659_FD93) ^ a.wrapping_mul(0xA24B_AED4_963E_E407) ^ b.wrapping_mul(0x9FB2_1C65_1E98_DF25));
        r.next_u64();
        r.next_u64();
        r
    }

    // Little-endian integer from the next `n` input bytes, if the byte mode still has that many.
    fn take(&mut self, n: usize) -> Option<u64> {
        if let Some((d, p)) = &mut self.1 {
            if *p + n <= d.len() {
                let mut v = 0u64;
                for i in 0..n { v |= (d[*p + i] as u64) << (8 * i); }
                *p += n;
                return Some(v);
            }
            *p = d.len();
        }
        None
    }

    pub fn next_u64(&mut self) -> u64 {
        if self.1.is_some() { if let Some(v) = self.take(8) { return v; } }
        self.0 = self.0.wrapping_add(0x9E37_79B9_7F4A_7C15);
        let mut z = self.0;
        z = (z ^ (z >> 30)).wrapping_mul(0xBF58_476D_1CE4_E5B9);
        z = (z ^ (z >> 27)).wrapping_mul(0x94D0_49BB_1331_11EB);
        z ^ (z >> 31)
    }

    // As few input bytes as the range needs (byte mode), else a full word.
    fn draw(&mut self, n: u64) -> u64 {
        if self.1.is_some() {
            let bytes = if n <= 1 << 8 { 1 } else if n <= 1 << 16 { 2 } else if n <= 1 << 32 { 4 } else { 8 };
            if let Some(v) = self.take(bytes) { return v; }
        }
        self.next_u64()
    }

    // Uniform in 0..n (n > 0).
    pub fn below(&mut self, n: usize) -> usize {
        if n <= 1 { return 0; }
        (self.draw(n as u64) % (n as u64)) as usize
    }

    // Uniform in lo..=hi.
    pub fn range(&mut self, lo: usize, hi: usize) -> usize {
        if hi <= lo { return lo; }
        let span = (hi - lo) as u64;
        if span == u64::MAX { return self.next_u64() as usize; }
        lo + (self.draw(span + 1) % (span + 1)) as usize
    }

    pub fn chance(&mut self, num: usize, den: usize) -> bool {
        self.below(den) < num
    }

    pub fn pick<'a, T>(&mut self, items: &'a [T]) -> &'a T {
        &items[self.below(items.len())]
    }

    // Value with a random bit length in 0..=max_bits (geometric-ish over magnitudes).
    pub fn magnitude(&mut self, max_bits: usize) -> u64 {
        let bits = self.below(max_bits + 1);
        if bits == 0 { return 0; }
        let v = self.next_u64();
        let v = if bits >= 64 { v } else { v & ((1u64 << bits) - 1) };
        v | (1u64 << (bits - 1))
    }
}

pub fn hash64(data: &[u64]) -> u64 {
    let mut h: u64 = 0xCBF2_9CE4_8422_2325;
    for &d in data {
        h ^= d;
        h = h.wrapping_mul(0x0000_0100_0000_01B3);
        h ^= h >> 29;
        h = h.wrapping_mul(0xBF58_476D_1CE4_E5B9);
    }
    h ^ (h >> 32)
}

pub fn hash_str(s: &str) -> u64 {
    let mut h: u64 = 0xCBF2_9CE4_8422_2325;
    for b in s.bytes() {
        h ^= b as u64;
        h = h.wrapping_mul(0x0000_0100_0000_01B3);
    }
    h
}

pub fn hash_bytes(s: &[u8]) -> u64 {
    let mut h: u64 = 0xCBF2_9CE4_8422_2325;
    for &b in s {
        h ^= b as u64;
        h = h.wrapping_mul(0x0000_0100_0000_01B3);
    }
    h ^ (h >> 31)
}

//-----------------------------------------------------------------------------

thread_local! {
    static LAST_PANIC: RefCell<String> = RefCell::new(String::new());
    static GUARD_DEPTH: std::cell::Cell<usize> = std::cell::Cell::new(0);
}

pub fn install_panic_hook() {
    panic::set_hook(Box::new(|info| {
        let msg = if let Some(s) = info.payload().downcast_ref::<&str>() {
            s.to_string()
        } else if let Some(s) = info.payload().downcast_ref::<String>() {
            s.clone()
        } else {
            "<non-string panic>".to_string()
        };
        let loc = info.location().map(|l| format!("{}:{}", l.file(), l.line())).unwrap_or_default();
        // A panic outside every guard is a harness bug: make it visible.
        if GUARD_DEPTH.with(|d| d.get()) == 0 {
            eprintln!("VMON-UNGUARDED-PANIC {} @ {}", msg, loc);
            if std::env::var("VMON_BACKTRACE").is_ok() { eprintln!("{}", std::backtrace::Backtrace::force_capture()); }
        }
        LAST_PANIC.with(|p| *p.borrow_mut() = format!("{} @ {}", msg, loc));
    }));
}

// The message and location of the most recent panic on this thread.
pub fn last_panic() -> String { LAST_PANIC.with(|p| p.borrow().clone()) }

// Runs `f`, turning a panic into `Err(message @ location)`.
pub fn guard<T>(f: impl FnOnce() -> T) -> Result<T, String> {
    GUARD_DEPTH.with(|d| d.set(d.get() + 1));
    let r = panic::catch_unwind(AssertUnwindSafe(f));
    GUARD_DEPTH.with(|d| d.set(d.get() - 1));
    match r {
        Ok(v) => Ok(v),
        Err(_) => Err(LAST_PANIC.with(|p| p.borrow().clone())),
    }
}

// Are arithmetic overflow checks compiled in? (Measured, not assumed.)
pub fn overflow_checks_on() -> bool {
    let x: u8 = std::hint::black_box(255);
    guard(|| { let y = x + std::hint::black_box(1u8); std::hint::black_box(y); }).is_err()
}

//-----------------------------------------------------------------------------

#[derive(Clone, Copy, Debug, PartialEq, Eq)]
pub enum Tier { Quick, Thorough }

#[derive(Clone, Debug)]
pub struct Violation {
    pub sig: String,
    pub detail: String,
}

pub struct Ctx {
    pub prop: String,
    pub tier: Tier,
    pub seed: u64,
    pub shard: usize,
    pub nshards: usize,
    pub cfg: String,
    pub part: String,
    pub only_case: Option<u64>,
    pub scale: usize,
    pub tmpdir: String,
    pub dir: String,
    pub evals: u64,
    pub checks: u64,
    pub digests: HashSet<u64>,
    pub digest_overflow: u64,
    pub samples: Vec<String>,
    pub violations: Vec<Violation>,
    pub violation_sigs: HashSet<String>,
    pub violations_total: u64,
    pub counters: BTreeMap<String, u64>,
    pub notes: BTreeMap<String, String>,
    pub inconclusive: Vec<String>,
    pub case_no: u64,
    pub budget: u64,
    pub budget_hit: bool,
    // Coverage-guided leg (fuzz.rs): when set, every generator of the selected case draws its decisions from these bytes.
    pub fuzz: Option<std::rc::Rc<Vec<u8>>>,
}

pub const MAX_DIGESTS: usize = 60_000;
pub const MAX_SAMPLES: usize = 6;
pub const MAX_VIOLATIONS: usize = 40;

impl Ctx {
    pub fn quick(&self) -> bool { self.tier == Tier::Quick }

    // Tier-dependent size: quick value, thorough value; both scaled down by `scale` (used for Miri legs).
    pub fn size(&self, quick: usize, thorough: usize) -> usize {
        let v = if self.quick() { quick } else { thorough };
        std::cmp::max(1, v / self.scale)
    }

    pub fn rng(&self, stream: u64) -> Rng {
        if let Some(data) = &self.fuzz { return Rng::from_bytes(data); }
        Rng::derive(self.seed, self.shard as u64, stream)
    }

    // Does this shard own enumeration index `i`?
    pub fn mine(&self, i: u64) -> bool {
        (i % self.nshards as u64) == self.shard as u64
    }

    // Start of one generated case. Returns false if the case is to be skipped (replay of another case).
    pub fn begin_case(&mut self) -> bool {
        self.case_no += 1;
        // Operation budget (used for the interpreter legs): deterministic, counted in monitored comparisons.
        if self.budget > 0 && self.checks >= self.budget {
            self.budget_hit = true;
            return false;
        }
        match self.only_case {
            Some(c) => c == self.case_no,
            None => true,
        }
    }

    // Registers one evaluated case with its digest and whether it is non-trivial by the driver's rule.
    pub fn case(&mut self, digest: u64, nontrivial: bool) {
        self.evals += 1;
        if nontrivial {
            if self.digests.len() < MAX_DIGESTS {
                self.digests.insert(digest);
            } else if !self.digests.contains(&digest) {
                self.digest_overflow += 1;
            }
        }
    }

    pub fn sample(&mut self, f: impl FnOnce() -> String) {
        if self.samples.len() < MAX_SAMPLES {
            let s = f();
            self.samples.push(s);
        }
    }

    pub fn want_sample(&self) -> bool {
        self.samples.len() < MAX_SAMPLES
    }

    pub fn count(&mut self, key: &str, n: u64) {
        *self.counters.entry(key.to_string()).or_insert(0) += n;
    }

    pub fn note(&mut self, key: &str, value: String) {
        self.notes.insert(key.to_string(), value);
    }

    pub fn violation(&mut self, sig: &str, detail: String) {
        self.violations_total += 1;
        if self.violation_sigs.contains(sig) && self.violations.len() >= 4 {
            // Keep at most a few witnesses per signature.
            let same = self.violations.iter().filter(|v| v.sig == sig).count();
            if same >= 3 { return; }
        }
        if self.violations.len() < MAX_VIOLATIONS {
            self.violation_sigs.insert(sig.to_string());
            self.violations.push(Violation { sig: sig.to_string(), detail: format!("case#{} {}", self.case_no, detail) });
        }
    }

    pub fn inconclusive(&mut self, why: String) {
        self.inconclusive.push(why);
    }

    // Compare an observed value with the expected one.
    pub fn expect_eq<T: PartialEq + std::fmt::Debug>(&mut self, sig: &str, what: impl FnOnce() -> String, got: &Result<T, String>, want: &T) -> bool {
        self.checks += 1;
        match got {
            Ok(v) if v == want => true,
            Ok(v) => {
                let w = what();
                self.violation(sig, format!("{}: got {:?}, expected {:?}", w, v, want));
                false
            },
            Err(p) => {
                let w = what();
                self.violation(&format!("{}!panic", sig), format!("{}: panicked ({}), expected {:?}", w, p, want));
                false
            },
        }
    }

    pub fn to_json(&self, extra: &[(String, String)]) -> String {
        let mut s = String::new();
        s.push('{');
        let _ = write!(s, "\"prop\":{},\"cfg\":{},\"part\":{},\"shard\":{},\"nshards\":{},\"seed\":{},\"tier\":{}",
            jstr(&self.prop), jstr(&self.cfg), jstr(&self.part), self.shard, self.nshards, self.seed,
            jstr(if self.quick() { "quick" } else { "thorough" }));
        let _ = write!(s, ",\"budget\":{},\"budget_hit\":{}", self.budget, self.budget_hit);
        let _ = write!(s, ",\"evaluations\":{},\"checks\":{},\"distinct_local\":{},\"digest_overflow\":{},\"violations_total\":{}",
            self.evals, self.checks, self.digests.len(), self.digest_overflow, self.violations_total);
        s.push_str(",\"samples\":[");
        for (i, x) in self.samples.iter().enumerate() {
            if i > 0 { s.push(','); }
            s.push_str(&jstr(x));
        }
        s.push_str("],\"violations\":[");
        for (i, v) in self.violations.iter().enumerate() {
            if i > 0 { s.push(','); }
            let _ = write!(s, "{{\"sig\":{},\"detail\":{}}}", jstr(&v.sig), jstr(&v.detail));
        }
        s.push_str("],\"counters\":{");
        for (i, (k, v)) in self.counters.iter().enumerate() {
            if i > 0 { s.push(','); }
            let _ = write!(s, "{}:{}", jstr(k), v);
        }
        s.push_str("},\"notes\":{");
        for (i, (k, v)) in self.notes.iter().enumerate() {
            if i > 0 { s.push(','); }
            let _ = write!(s, "{}:{}", jstr(k), jstr(v));
        }
        s.push_str("},\"inconclusive\":[");
        for (i, x) in self.inconclusive.iter().enumerate() {
            if i > 0 { s.push(','); }
            s.push_str(&jstr(x));
        }
        s.push(']');
        for (k, v) in extra {
            let _ = write!(s, ",{}:{}", jstr(k), v);
        }
        s.push('}');
        s
    }
}

pub fn jstr(s: &str) -> String {
    let mut out = String::with_capacity(s.len() + 2);
    out.push('"');
    for c in s.chars() {
        match c {
            '"' => out.push_str("\\\""),
            '\\' => out.push_str("\\\\"),
            '\n' => out.push_str("\\n"),
            '\r' => out.push_str("\\r"),
            '\t' => out.push_str("\\t"),
            c if (c as u32) < 0x20 => { let _ = write!(out, "\\u{:04x}", c as u32); },
            c => out.push(c),
        }
    }
    out.push('"');
    out
}

// Class of an argument relative to a length, used in violation signatures.
pub fn arg_class(i: usize, len: usize) -> &'static str {
    if i < len { "lt" }
    else if i == len { "eq" }
    else if i == usize::MAX { "max" }
    else if i == usize::MAX - 1 { "max-1" }
    else if i >= (1usize << 63) { "huge" }
    else { "gt" }
}

pub fn fmt_list(v: &[usize], max: usize) -> String {
    let mut s = String::from("[");
    for (i, x) in v.iter().enumerate() {
        if i >= max { let _ = write!(s, ",..({} total)", v.len()); break; }
        if i > 0 { s.push(','); }
        let _ = write!(s, "{}", x);
    }
    s.push(']');
    s
}

pub fn fmt_bits(v: &[bool], max: usize) -> String {
    let mut s = String::new();
    for (i, x) in v.iter().enumerate() {
        if i >= max { let _ = write!(s, "..({} bits)", v.len()); break; }
        s.push(if *x { '1' } else { '0' });
    }
    s
}
