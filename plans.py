"""Per-property run plans: which driver, which build configurations (legs), how many shards, what must be observed.

A leg is one build configuration of the harness running one part of a driver in `shards` parallel processes.
`require` lists regime probes that must have fired for the verdict to be anything but inconclusive.
"""


def leg(cfg, shards=1, part=None, scale=None, timeout=None, weight=1, env=None):
    d = {"cfg": cfg, "shards": shards, "weight": weight}
    if part:
        d["part"] = part
    if scale:
        d["scale"] = scale
    if timeout:
        d["timeout"] = timeout
    if env:
        d["env"] = env
    return d


def requirement_met(req, counters, probes, sets, builds):
    kind = req[0]
    if kind == "counter":       # ("counter", name, minimum)
        return counters.get(req[1], 0) >= req[2]
    if kind == "probe":         # ("probe", name, minimum)
        return probes.get(req[1], 0) >= req[2]
    if kind == "set_size":      # ("set_size", name, minimum members)
        return len(sets.get(req[1], [])) >= req[2]
    if kind == "set_has":       # ("set_has", name, [members])
        return all(m in sets.get(req[1], []) for m in req[2])
    if kind == "build":         # ("build", cfg, key, value)
        return builds.get(req[1], {}).get(req[2]) == req[3]
    return False


PLANS = {}
NOT_APPLICABLE = {}

PLANS["C01"] = {
    "driver": "c01",
    "rule": ("cases = (a) every bit sequence of length 0..=L through 5 construction routes x every argument 0..len+2, "
             "(b) boundary lengths x 7 densities x 3 shapes, (c) vectors with long/short/partial select superblocks for ones and zeros; "
             "distinct = digest of (part, length, pattern or position list); non-trivial = has both a set and an unset bit, or length <= 1"),
    "legs": {
        "quick": [leg("rel", 16, "small"), leg("dbg", 16, "small", scale=1), leg("rel", 8, "boundary"), leg("dbg", 8, "boundary"),
                  leg("rel-nobmi", 8, "boundary"), leg("rel", 4, "regime", weight=5), leg("rel-nobmi", 4, "regime", weight=5),
                  leg("dbg", 4, "regime", weight=5)],
        "thorough": [leg("rel", 16, "small"), leg("dbg", 16, "small"), leg("rel-nobmi", 16, "small"), leg("rel", 16, "boundary"), leg("dbg", 16, "boundary"),
                     leg("rel-nobmi", 16, "boundary"), leg("rel", 10, "regime", weight=5), leg("rel-nobmi", 10, "regime", weight=5),
                     leg("dbg", 10, "regime", weight=5)],
    },
    "require": {
        "quick": [("counter", "identity.sel_build_long", 1), ("counter", "identity.sel_build_short", 1),
                  ("counter", "complement.sel_build_long", 1), ("counter", "complement.sel_build_short", 1),
                  ("counter", "identity.sel_q_long", 1), ("counter", "identity.sel_q_long_ptr_nonzero", 1),
                  ("counter", "identity.sel_q_short_scan", 1), ("counter", "identity.sel_q_short_next_word", 1),
                  ("counter", "identity.sel_q_superblock_start", 1),
                  ("counter", "complement.sel_q_long", 1), ("counter", "complement.sel_q_long_ptr_nonzero", 1),
                  ("counter", "complement.sel_q_short_scan", 1), ("counter", "complement.complement_last_word", 1),
                  ("build", "rel-nobmi", "bmi2", False), ("build", "rel", "bmi2", True), ("build", "dbg", "overflow_checks", True)],
    },
    "level_text": ("exploration: the real BitVector is queried on exhaustive small scopes, boundary lengths and regime-directed vectors while a reference model checks "
                   "every answer online; regime probes prove that long/short/partial superblocks were reached for ones and zeros in debug, release and no-BMI2 builds"),
    "level_note": "trusts the naive reference models (self-tested at start-up) and the finite workload; says nothing about vectors not generated",
    "technique": "runtime monitoring: online reference-model oracle over generated workloads + regime probes",
    "assumptions": ["reference model: Vec<bool>/sorted position list with linear scans and binary search, cross-checked against each other at start-up",
                    "lengths above ~10^6 bits are not explored"],
}
PLANS["C01"]["require"]["thorough"] = PLANS["C01"]["require"]["quick"]
