"""Per-property run plans: which driver, which build configurations (legs), how many shards, what must be observed.

A leg is one build configuration of the harness running one part of a driver in `shards` parallel processes.
`require` lists regime probes that must have fired for the verdict to be anything but inconclusive.
"""


def leg(cfg, shards=1, part=None, scale=None, timeout=None, weight=1, env=None, of=None, budget=None):
    d = {"cfg": cfg, "shards": shards, "weight": weight}
    if of:
        d["of"] = of          # shards 0..shards-1 of `of`: an evenly strided sample of the enumeration
    if budget:
        d["budget"] = budget  # stop starting new cases after this many monitored comparisons (per shard)
    if part:
        d["part"] = part
    if scale:
        d["scale"] = scale
    if timeout:
        d["timeout"] = timeout
    if env:
        d["env"] = env
    return d


def requirement_met(req, counters, probes, sets, builds):
    kind = req[0]
    if kind == "counter":       # ("counter", name, minimum)
        return counters.get(req[1], 0) >= req[2]
    if kind == "probe":         # ("probe", name, minimum)
        return probes.get(req[1], 0) >= req[2]
    if kind == "set_size":      # ("set_size", name, minimum members)
        return len(sets.get(req[1], [])) >= req[2]
    if kind == "set_has":       # ("set_has", name, [members])
        return all(m in sets.get(req[1], []) for m in req[2])
    if kind == "build":         # ("build", cfg, key, value)
        return builds.get(req[1], {}).get(req[2]) == req[3]
    return False


PLANS = {}
NOT_APPLICABLE = {}

PLANS["C01"] = {
    "driver": "c01",
    "rule": ("cases = (a) every bit sequence of length 0..=L through 5 construction routes x every argument 0..len+2, "
             "(b) boundary lengths x 7 densities x 3 shapes, (c) vectors with long/short/partial select superblocks for ones and zeros; "
             "distinct = digest of (part, length, pattern or position list); non-trivial = has both a set and an unset bit, or length <= 1"),
    "legs": {
        "quick": [leg("rel", 16, "small"), leg("dbg", 16, "small", scale=1), leg("rel", 8, "boundary"), leg("dbg", 8, "boundary"),
                  leg("rel-nobmi", 8, "boundary"), leg("rel", 4, "regime", weight=5), leg("rel-nobmi", 4, "regime", weight=5),
                  leg("dbg", 4, "regime", weight=5)],
        "thorough": [leg("rel", 16, "small"), leg("dbg", 16, "small"), leg("rel-nobmi", 16, "small"), leg("rel", 16, "boundary"), leg("dbg", 16, "boundary"),
                     leg("rel-nobmi", 16, "boundary"), leg("rel", 10, "regime", weight=5), leg("rel-nobmi", 10, "regime", weight=5),
                     leg("dbg", 10, "regime", weight=5)],
    },
    "require": {
        "quick": [("counter", "identity.sel_build_long", 1), ("counter", "identity.sel_build_short", 1),
                  ("counter", "complement.sel_build_long", 1), ("counter", "complement.sel_build_short", 1),
                  ("counter", "identity.sel_q_long", 1), ("counter", "identity.sel_q_long_ptr_nonzero", 1),
                  ("counter", "identity.sel_q_short_scan", 1), ("counter", "identity.sel_q_short_next_word", 1),
                  ("counter", "identity.sel_q_superblock_start", 1),
                  ("counter", "complement.sel_q_long", 1), ("counter", "complement.sel_q_long_ptr_nonzero", 1),
                  ("counter", "complement.sel_q_short_scan", 1), ("counter", "complement.complement_last_word", 1),
                  ("build", "rel-nobmi", "bmi2", False), ("build", "rel", "bmi2", True), ("build", "dbg", "overflow_checks", True)],
    },
    "level_text": ("exploration: the real BitVector is queried on exhaustive small scopes, boundary lengths and regime-directed vectors while a reference model checks "
                   "every answer online; regime probes prove that long/short/partial superblocks were reached for ones and zeros in debug, release and no-BMI2 builds"),
    "level_note": "trusts the naive reference models (self-tested at start-up) and the finite workload; says nothing about vectors not generated",
    "technique": "runtime monitoring: online reference-model oracle over generated workloads + regime probes",
    "assumptions": ["reference model: Vec<bool>/sorted position list with linear scans and binary search, cross-checked against each other at start-up",
                    "lengths above ~10^6 bits are not explored"],
}
PLANS["C01"]["require"]["thorough"] = PLANS["C01"]["require"]["quick"]

PLANS["C17"] = {
    "driver": "c17",
    "rule": ("cases = every n in 0..=64 for the masks; every bit count 1..=64 x many values for reverse_low; 2^k-1, 2^k, 2^k+1 and random magnitudes for bit_len and the rounding/conversion "
             "helpers inside their documented domains; every (offset 0..191, width 1..=64) x values x 3 backgrounds for write_int/read_int with all 256 bits compared with a bit-array model; "
             "select on every 1-bit and 2-bit word, every byte value in every byte position, every 16-bit pattern in each quarter and random words x every legal rank, in a BMI2 build and in a "
             "portable build; distinct = digest of (primitive, argument class or word); non-trivial = word has a set bit / every listed case"),
    "legs": {
        "quick": [leg("rel", 16), leg("rel-nobmi", 16), leg("dbg", 8, "rw"), leg("bounds", 8, "select"), leg("miri", 8, "select_miri", budget=3000), leg("miri", 4, "masks", scale=200, budget=3000)],
        "thorough": [leg("rel", 16), leg("rel-nobmi", 16), leg("dbg", 16), leg("bounds", 16), leg("miri", 16, "select_miri", budget=20000), leg("miri", 8, "masks", scale=100, budget=20000),
                     leg("miri-native", 8, "select_miri", budget=20000)],
    },
    "require": {
        "quick": [("build", "rel-nobmi", "bmi2", False), ("build", "rel", "bmi2", True), ("probe", "select_table", 1000), ("probe", "select_pdep", 1000),
                  ("probe", "write_int_straddle", 1000), ("probe", "write_int_single", 1000), ("probe", "read_int_straddle", 1000), ("build", "miri", "miri", True)],
    },
    "level_text": ("exploration with exhaustive sub-spaces: every (offset, width) pair for read/write and every mask argument is enumerated, select is driven over structured and random words in both "
                   "compiled paths (PDEP and lookup table, the latter also under Miri so that table indices are bounds-checked by the interpreter), each answer compared with a naive definition"),
    "level_note": "trusts the naive loops used as definitions; values per (offset,width) and random words are samples",
    "technique": "runtime monitoring: naive-definition oracle over exhaustive/structured inputs in BMI2 and portable builds, Miri for the table path",
    "assumptions": ["the build configuration actually compiled is read back from cfg!(target_feature) by the harness"],
}
PLANS["C17"]["require"]["thorough"] = PLANS["C17"]["require"]["quick"]

PLANS["C05"] = {
    "driver": "c05",
    "rule": ("cases = operation histories on RawVector (16 kinds of operation, 1..200 steps, lengths hovering around word boundaries, alternating fill values) and IntVector (20 kinds, every width 1..=64, "
             "values wider than the width), plus every history of <= L steps over fixed 9-/8-operation alphabets; after EVERY step: content vs model, tail invariant via AsRef<[u64]>, "
             "==/serialized bytes/count_ones vs a freshly built vector; distinct = digest of the operation-kind sequence (and width); non-trivial = at least 2 steps"),
    "legs": {
        "quick": [leg("rel", 16), leg("dbg", 16), leg("miri", 8, "raw_exh", of=512, budget=600)],
        "thorough": [leg("rel", 16), leg("dbg", 16), leg("rel-nobmi", 8), leg("miri", 12, "raw_exh", of=128, budget=4000), leg("miri", 8, "int_exh", of=128, budget=4000)],
    },
    "require": {
        "quick": [("probe", "tail_cleared", 1), ("probe", "write_int_straddle", 1), ("build", "dbg", "overflow_checks", True)],
    },
    "level_text": ("exploration: random and exhaustively enumerated operation histories run against the real vectors while a Vec<bool>/Vec<u64> model checks content, the tail invariant and canonical "
                   "form after every single operation"),
    "level_note": "trusts the Vec-based models; capacity is deliberately not checked; only in-contract arguments are used (set below len, widths <= 64)",
    "technique": "runtime monitoring: history + executable sequential model, invariant checked at every step",
    "assumptions": ["histories are bounded (<= 200 steps, <= 520 bits / 130 items)"],
}
PLANS["C05"]["require"]["thorough"] = PLANS["C05"]["require"]["quick"]

PLANS["C02"] = {
    "driver": "c02",
    "rule": ("cases = (a) every subset of every universe n <= L through the builder routes (set/try_set/extend), conversions and try_from_iter, all arguments 0..n+2 plus extreme values; "
             "(b) (n, m) pairs solved for from the parameter rule so that each low width 1..=63 is chosen, universes up to usize::MAX, six position layouts (ends, one bucket, bucket edges, "
             "empty stretches, dense runs, uniform); (c) m = 0 for every n = 2^k +-1 up to the memory bound, m = 1, m = n, m = n-1; (d) adversarial select_zero layouts with 17..4000 zero runs; "
             "the width actually chosen is read from the serialized bytes; distinct = digest of (observed width, m, n class, layout, positions); non-trivial = 0 < m < n or n <= 1"),
    "legs": {
        "quick": [leg("rel", 16), leg("dbg", 16), leg("miri", 6, "small", of=512, budget=3000), leg("miri-wrap", 6, "widths", of=12, scale=150, budget=2500)],
        "thorough": [leg("rel", 16), leg("dbg", 16), leg("rel-nobmi", 16), leg("miri", 12, "small", of=128, budget=20000), leg("miri-wrap", 12, "widths", of=12, scale=60, budget=15000)],
    },
    "require": {
        "quick": [("set_size", "sparse_low_width", 63), ("probe", "sparse_fzr_binary", 1), ("probe", "sparse_fzr_linear", 1), ("counter", "widths.on_target", 63)],
    },
    "level_text": ("exploration: the real SparseVector is built through every builder route and queried while a sorted-list model (binary search, cross-checked against a Vec<bool> model) checks every answer; "
                   "the generator is steered so that every low width 1..=63 and both phases of select_zero are reached, which the run proves from the serialized width field and probes"),
    "level_note": "trusts the sorted-list model; universes are sampled, tiny m/n with huge n is bounded by memory exactly as the quantifier says",
    "technique": "runtime monitoring: online reference-model oracle, parameter-regime-directed generation, Miri on the small and huge-universe slices",
    "assumptions": ["positions per vector <= ~70k", "m = 0 explored up to n = 2^24 (quick) / 2^27 (thorough)"],
}
PLANS["C02"]["require"]["thorough"] = PLANS["C02"]["require"]["quick"]

PLANS["C03"] = {
    "driver": "c03",
    "rule": ("cases = (a) every bit pattern of length <= L built through four decompositions of the same run list (maximal runs, random splits, one bit at a time, splits with interleaved set_len) and "
             "without a final set_len; (b) run lists whose gaps/lengths are drawn per code-unit class 1..22 under six profiles, 0..34000 runs (1..1000+ blocks), run at position 0 or not, "
             "trailing zeros or not; (c) total lengths 2^63-1, 2^63, 2^63+1, 2^63+2^61, 2^64-2^20, usize::MAX-65, usize::MAX-64 with eight shapes incl. a first block that holds only a run starting at 0; "
             "queries at every run start/end +-2, block starts, and extreme arguments; run_iter compared with the maximal runs and offset/rank/rank_zero after each item; "
             "distinct = digest of (part, run count, profile, first 64 runs); non-trivial = has set and unset bits or is a boundary case"),
    "legs": {
        "quick": [leg("rel", 16), leg("dbg", 16), leg("miri", 6, "small", of=512, budget=3000), leg("miri-wrap", 6, "huge", of=8, scale=4, budget=2500)],
        "thorough": [leg("rel", 16), leg("dbg", 16), leg("rel-nobmi", 8), leg("miri", 12, "small", of=128, budget=20000), leg("miri-wrap", 12, "huge", of=12, scale=2, budget=15000)],
    },
    "require": {
        "quick": [("set_size", "rl_code_units", 20), ("probe", "rl_flush_new_block_padded", 1), ("probe", "rl_flush_new_block_exact", 1), ("probe", "sample_index_multi", 1),
                  ("probe", "rl_iter_cross_block", 1), ("counter", "blocks_class.9", 1), ("counter", "blocks_class.64-999", 1)],
    },
    "level_text": ("exploration: the real RLVector is built from generated run lists (all code-unit classes, 1..1000+ blocks, lengths up to usize::MAX-64) and queried while a run-list model checks every answer "
                   "and the run iterator; probes prove that early-closed and exactly-full blocks, multi-sample indexes and block crossings were reached"),
    "level_note": "trusts the run-list model (cross-checked against Vec<bool>); lengths in the last 64 values of usize are outside the library's documented domain and only reported as information",
    "technique": "runtime monitoring: online reference-model oracle over code-unit-class-directed run lists, Miri on small and huge slices",
    "assumptions": ["at most ~34000 runs per vector"],
}
PLANS["C03"]["require"]["thorough"] = PLANS["C03"]["require"]["quick"]

PLANS["C15"] = {
    "driver": "c15",
    "rule": ("cases = (a) every non-decreasing list of <= K values over universes <= U incl. overfull ones, three builder routes and try_from_iter; (b) generated multisets with duplicate runs of 2..500 at 0, "
             "at n-1 and next to bucket boundaries, universes up to 2^40; (c) try_from_iter on every sequence over {0..3} of length <= L (accept iff non-decreasing, universe = last+1) and on long sorted / "
             "once-inverted sequences; zero-side queries are not checked (documented as unsupported); distinct = digest of (universe, value list); non-trivial = at least two values"),
    "legs": {
        "quick": [leg("rel", 16), leg("dbg", 16), leg("miri", 8, "small", of=256, budget=3000)],
        "thorough": [leg("rel", 16), leg("dbg", 16), leg("miri", 12, "small", of=64, budget=20000), leg("miri-wrap", 8, "from_iter", of=64, budget=20000)],
    },
    "require": {"quick": [], "thorough": []},
    "level_text": ("exploration: multiset sparse vectors are built exhaustively at small scope and by directed generation, and every present-value query, both set-bit iterator directions and both bit "
                   "iterator directions are compared with a sorted-list-with-duplicates model"),
    "level_note": "trusts the sorted-list model; semantics of zero-side queries on multisets are not defined by the library and are not checked",
    "technique": "runtime monitoring: online reference-model oracle, exhaustive small scope + directed duplicates",
    "assumptions": [],
}
