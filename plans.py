"""Per-property run plans: which driver, which build configurations (legs), how many shards, what must be observed.

A leg is one build configuration of the harness running one part of a driver in `shards` parallel processes.
`require` lists regime probes that must have fired for the verdict to be anything but inconclusive.
"""


def leg(cfg, shards=1, part=None, scale=None, timeout=None, weight=1, env=None, of=None, budget=None, stage=0, dir=False, python=None, pyargs=None, driver=None, runs=None, maxlen=None):
    d = {"cfg": cfg, "shards": shards, "weight": weight, "stage": stage}
    if driver:
        d["driver"] = driver  # replay another property's workload in this configuration (process-level verdicts only)
    if runs:
        d["runs"] = runs      # coverage-guided legs (cfg fuzz / fuzz-dbg): number of inputs libFuzzer executes per shard
    if maxlen:
        d["maxlen"] = maxlen  # ... and the longest input (bytes) it may grow
    if dir:
        d["dir"] = True
    if python:
        d["python"] = python
        d["pyargs"] = pyargs or []
    if of:
        d["of"] = of          # shards 0..shards-1 of `of`: an evenly strided sample of the enumeration
    if budget:
        d["budget"] = budget  # stop starting new cases after this many monitored comparisons (per shard)
    if part:
        d["part"] = part
    if scale:
        d["scale"] = scale
    if timeout:
        d["timeout"] = timeout
    if env:
        d["env"] = env
    return d


def requirement_met(req, counters, probes, sets, builds):
    kind = req[0]
    if kind == "counter":       # ("counter", name, minimum)
        return counters.get(req[1], 0) >= req[2]
    if kind == "probe":         # ("probe", name, minimum)
        return probes.get(req[1], 0) >= req[2]
    if kind == "set_size":      # ("set_size", name, minimum members)
        return len(sets.get(req[1], [])) >= req[2]
    if kind == "set_has":       # ("set_has", name, [members])
        return all(m in sets.get(req[1], []) for m in req[2])
    if kind == "build":         # ("build", cfg, key, value)
        return builds.get(req[1], {}).get(req[2]) == req[3]
    return False


PLANS = {}
NOT_APPLICABLE = {}

PLANS["C01"] = {
    "driver": "c01",
    "rule": ("cases = (a) every bit sequence of length 0..=L through 5 construction routes x every argument 0..len+2, "
             "(b) boundary lengths x 7 densities x 3 shapes, (c) vectors with long/short/partial select superblocks for ones and zeros; "
             "distinct = digest of (part, length, pattern or position list); non-trivial = has both a set and an unset bit, or length <= 1"),
    "legs": {
        "quick": [leg("rel", 16, "small"), leg("dbg", 16, "small", scale=1), leg("rel", 8, "boundary"), leg("dbg", 8, "boundary"),
                  leg("rel-nobmi", 8, "boundary"), leg("dbg-nobmi", 8, "boundary"), leg("rel", 6, "regime", weight=5), leg("rel-nobmi", 6, "regime", weight=5),
                  leg("dbg", 6, "regime", weight=5), leg("miri", 4, "small", of=4096, budget=2500), leg("miri-native", 2, "small", of=4096, budget=2500)],
        "thorough": [leg("rel", 16, "small"), leg("dbg", 16, "small"), leg("rel-nobmi", 16, "small"), leg("rel", 16, "boundary"), leg("dbg", 16, "boundary"),
                     leg("rel-nobmi", 16, "boundary"), leg("dbg-nobmi", 16, "boundary"), leg("dbg-nobmi", 16, "regime", weight=5), leg("rel", 16, "regime", weight=5), leg("rel-nobmi", 16, "regime", weight=5),
                     leg("dbg", 16, "regime", weight=5), leg("miri", 10, "small", of=2048, budget=20000), leg("miri-native", 6, "small", of=2048, budget=20000)],
    },
    "require": {
        "quick": [("counter", "identity.sel_build_long", 1), ("counter", "identity.sel_build_short", 1),
                  ("counter", "complement.sel_build_long", 1), ("counter", "complement.sel_build_short", 1),
                  ("counter", "identity.sel_q_long", 1), ("counter", "identity.sel_q_long_ptr_nonzero", 1),
                  ("counter", "identity.sel_q_short_scan", 1), ("counter", "identity.sel_q_short_next_word", 1),
                  ("counter", "identity.sel_q_superblock_start", 1),
                  ("counter", "complement.sel_q_long", 1), ("counter", "complement.sel_q_long_ptr_nonzero", 1),
                  ("counter", "complement.sel_q_short_scan", 1), ("counter", "complement.complement_last_word", 1),
                  ("counter", "regime.model_wide_short_superblocks_ones", 1), ("counter", "regime.model_wide_short_superblocks_zeros", 1),
                  ("build", "rel-nobmi", "bmi2", False), ("build", "rel", "bmi2", True), ("build", "dbg", "overflow_checks", True)],
    },
    "level_text": ("exploration: the real BitVector is queried on exhaustive small scopes, boundary lengths and regime-directed vectors while a reference model checks "
                   "every answer online; regime probes prove that long/short/partial superblocks were reached for ones and zeros in debug, release and no-BMI2 builds"),
    "level_note": "trusts the naive reference models (self-tested at start-up) and the finite workload; says nothing about vectors not generated",
    "technique": "runtime monitoring: online reference-model oracle over generated workloads + regime probes",
    "assumptions": ["reference model: Vec<bool>/sorted position list with linear scans and binary search, cross-checked against each other at start-up",
                    "lengths above ~10^6 bits are not explored"],
}
PLANS["C01"]["require"]["thorough"] = PLANS["C01"]["require"]["quick"]

PLANS["C17"] = {
    "driver": "c17",
    "rule": ("cases = every n in 0..=64 for the masks; every bit count 1..=64 x many values for reverse_low; 2^k-1, 2^k, 2^k+1 and random magnitudes for bit_len and the rounding/conversion "
             "helpers inside their documented domains; every (offset 0..191, width 1..=64) x values x 3 backgrounds for write_int/read_int with all 256 bits compared with a bit-array model; "
             "select on every 1-bit and 2-bit word, every byte value in every byte position, every 16-bit pattern in each quarter and random words x every legal rank, in a BMI2 build and in a "
             "portable build; distinct = digest of (primitive, argument class or word); non-trivial = word has a set bit / every listed case"),
    "legs": {
        "quick": [leg("rel", 16), leg("rel-nobmi", 16), leg("dbg", 8, "rw"), leg("dbg", 2, "masks"), leg("dbg-nobmi", 2, "masks"), leg("dbg-nobmi", 8, "select"), leg("bounds", 8, "select"), leg("miri", 8, "select_miri", budget=3000), leg("miri", 4, "masks", scale=200, budget=3000)],
        "thorough": [leg("rel", 16), leg("rel-nobmi", 16), leg("dbg", 16), leg("dbg-nobmi", 16), leg("bounds", 16), leg("miri", 16, "select_miri", budget=20000), leg("miri", 8, "masks", scale=100, budget=20000),
                     leg("miri-native", 8, "select_miri", budget=20000)],
    },
    "require": {
        "quick": [("build", "rel-nobmi", "bmi2", False), ("build", "rel", "bmi2", True), ("probe", "select_table", 1000), ("probe", "select_pdep", 1000),
                  ("probe", "write_int_straddle", 1000), ("probe", "write_int_single", 1000), ("probe", "read_int_straddle", 1000), ("build", "miri", "miri", True)],
    },
    "level_text": ("exploration with exhaustive sub-spaces: every (offset, width) pair for read/write and every mask argument is enumerated, select is driven over structured and random words in both "
                   "compiled paths (PDEP and lookup table, the latter also under Miri so that table indices are bounds-checked by the interpreter), each answer compared with a naive definition"),
    "level_note": "trusts the naive loops used as definitions; values per (offset,width) and random words are samples",
    "technique": "runtime monitoring: naive-definition oracle over exhaustive/structured inputs in BMI2 and portable builds, Miri for the table path",
    "assumptions": ["the build configuration actually compiled is read back from cfg!(target_feature) by the harness"],
}
PLANS["C17"]["require"]["thorough"] = PLANS["C17"]["require"]["quick"]

PLANS["C05"] = {
    "driver": "c05",
    "rule": ("cases = operation histories on RawVector (16 kinds of operation, 1..200 steps, lengths hovering around word boundaries, alternating fill values) and IntVector (20 kinds, every width 1..=64, "
             "values wider than the width), plus every history of <= L steps over fixed 9-/8-operation alphabets; after EVERY step: content vs model, tail invariant via AsRef<[u64]>, "
             "==/serialized bytes/count_ones vs a freshly built vector; distinct = digest of the operation-kind sequence (and width); non-trivial = at least 2 steps"),
    "legs": {
        "quick": [leg("rel", 16), leg("dbg", 16), leg("miri", 8, "raw_exh", of=512, budget=600), leg("miri", 6, "int", budget=1200, scale=10),
                   leg("fuzz", 3, "raw", runs=15000), leg("fuzz", 3, "int", runs=15000)],
        "thorough": [leg("rel", 16), leg("dbg", 16), leg("rel-nobmi", 8), leg("miri", 12, "raw_exh", of=128, budget=4000), leg("miri", 8, "int_exh", of=128, budget=4000), leg("miri", 12, "int", budget=8000, scale=10), leg("miri", 6, "raw", budget=8000, scale=10),
                      leg("fuzz", 6, "raw", runs=80000), leg("fuzz", 6, "int", runs=80000), leg("fuzz-dbg", 3, "raw", runs=80000), leg("fuzz-dbg", 3, "int", runs=80000)],
    },
    "require": {
        "quick": [("probe", "tail_cleared", 1), ("probe", "write_int_straddle", 1), ("build", "dbg", "overflow_checks", True)],
    },
    "level_text": ("exploration: random and exhaustively enumerated operation histories run against the real vectors while a Vec<bool>/Vec<u64> model checks content, the tail invariant and canonical "
                   "form after every single operation"),
    "level_note": "trusts the Vec-based models; capacity is deliberately not checked; only in-contract arguments are used (set below len, widths <= 64)",
    "technique": "runtime monitoring: history + executable sequential model, invariant checked at every step + coverage-guided legs (libFuzzer with AddressSanitizer / overflow checks) driving the same oracle",
    "assumptions": ["histories are bounded (<= 200 steps, <= 520 bits / 130 items)"],
}
PLANS["C05"]["require"]["thorough"] = PLANS["C05"]["require"]["quick"]

PLANS["C02"] = {
    "driver": "c02",
    "rule": ("cases = (a) every subset of every universe n <= L through the builder routes (set/try_set/extend), conversions and try_from_iter, all arguments 0..n+2 plus extreme values; "
             "(b) (n, m) pairs solved for from the parameter rule so that each low width 1..=63 is chosen, universes up to usize::MAX, six position layouts (ends, one bucket, bucket edges, "
             "empty stretches, dense runs, uniform); (c) m = 0 for every n = 2^k +-1 up to the memory bound, m = 1, m = n, m = n-1; (d) adversarial select_zero layouts with 17..4000 zero runs; "
             "the width actually chosen is read from the serialized bytes; distinct = digest of (observed width, m, n class, layout, positions); non-trivial = 0 < m < n or n <= 1"),
    "legs": {
        "quick": [leg("rel", 16), leg("dbg", 16), leg("miri", 6, "small", of=512, budget=3000), leg("miri-wrap", 6, "widths", of=12, scale=150, budget=2500),
                   leg("fuzz", 2, "widths", runs=1000)],
        "thorough": [leg("rel", 16), leg("dbg", 16), leg("rel-nobmi", 16), leg("miri", 12, "small", of=128, budget=20000), leg("miri-wrap", 12, "widths", of=12, scale=60, budget=15000),
                      leg("fuzz", 8, "widths", runs=8000), leg("fuzz-dbg", 4, "widths", runs=8000)],
    },
    "require": {
        "quick": [("set_size", "sparse_low_width", 63), ("probe", "sparse_fzr_binary", 1), ("probe", "sparse_fzr_linear", 1), ("counter", "widths.on_target", 63), ("counter", "wide.one_side_cases", 1), ("counter", "wide.zero_side_cases", 1)],
    },
    "level_text": ("exploration: the real SparseVector is built through every builder route and queried while a sorted-list model (binary search, cross-checked against a Vec<bool> model) checks every answer; "
                   "the generator is steered so that every low width 1..=63 and both phases of select_zero are reached, which the run proves from the serialized width field and probes"),
    "level_note": "trusts the sorted-list model; universes are sampled, tiny m/n with huge n is bounded by memory exactly as the quantifier says",
    "technique": "runtime monitoring: online reference-model oracle, parameter-regime-directed generation, Miri on the small and huge-universe slices + coverage-guided legs (libFuzzer with AddressSanitizer / overflow checks) driving the same oracle",
    "assumptions": ["positions per vector <= ~70k", "m = 0 explored up to n = 2^24 (quick) / 2^27 (thorough)"],
}
PLANS["C02"]["require"]["thorough"] = PLANS["C02"]["require"]["quick"]

PLANS["C03"] = {
    "driver": "c03",
    "rule": ("cases = (a) every bit pattern of length <= L built through four decompositions of the same run list (maximal runs, random splits, one bit at a time, splits with interleaved set_len) and "
             "without a final set_len; (b) run lists whose gaps/lengths are drawn per code-unit class 1..22 under six profiles, 0..34000 runs (1..1000+ blocks), run at position 0 or not, "
             "trailing zeros or not; (c) total lengths 2^63-1, 2^63, 2^63+1, 2^63+2^61, 2^64-2^20, usize::MAX-65, usize::MAX-64 with eight shapes incl. a first block that holds only a run starting at 0; "
             "queries at every run start/end +-2, block starts, and extreme arguments; run_iter compared with the maximal runs and offset/rank/rank_zero after each item; "
             "distinct = digest of (part, run count, profile, first 64 runs); non-trivial = has set and unset bits or is a boundary case"),
    "legs": {
        "quick": [leg("rel", 16), leg("dbg", 16), leg("miri", 6, "small", of=512, budget=3000), leg("miri-wrap", 6, "huge", of=8, scale=4, budget=2500)],
        "thorough": [leg("rel", 16), leg("dbg", 16), leg("rel-nobmi", 8), leg("miri", 12, "small", of=128, budget=20000), leg("miri-wrap", 12, "huge", of=12, scale=2, budget=15000)],
    },
    "require": {
        "quick": [("set_size", "rl_code_units", 20), ("probe", "rl_flush_new_block_padded", 1), ("probe", "rl_flush_new_block_exact", 1), ("probe", "sample_index_multi", 1),
                  ("probe", "rl_iter_cross_block", 1), ("counter", "blocks_class.9", 1), ("counter", "blocks_class.64-999", 1)],
    },
    "level_text": ("exploration: the real RLVector is built from generated run lists (all code-unit classes, 1..1000+ blocks, lengths up to usize::MAX-64) and queried while a run-list model checks every answer "
                   "and the run iterator; probes prove that early-closed and exactly-full blocks, multi-sample indexes and block crossings were reached"),
    "level_note": "trusts the run-list model (cross-checked against Vec<bool>); lengths in the last 64 values of usize are outside the library's documented domain and only reported as information",
    "technique": "runtime monitoring: online reference-model oracle over code-unit-class-directed run lists, Miri on small and huge slices",
    "assumptions": ["at most ~34000 runs per vector"],
}
PLANS["C03"]["require"]["thorough"] = PLANS["C03"]["require"]["quick"]

PLANS["C15"] = {
    "driver": "c15",
    "rule": ("cases = (a) every non-decreasing list of <= K values over universes <= U incl. overfull ones, three builder routes and try_from_iter; (b) generated multisets with duplicate runs of 2..500 at 0, "
             "at n-1 and next to bucket boundaries, universes up to 2^40; (c) try_from_iter on every sequence over {0..3} of length <= L (accept iff non-decreasing, universe = last+1) and on long sorted / "
             "once-inverted sequences; zero-side queries are not checked (documented as unsupported); distinct = digest of (universe, value list); non-trivial = at least two values"),
    "legs": {
        "quick": [leg("rel", 16), leg("dbg", 16), leg("miri", 8, "small", of=256, budget=3000),
                   leg("fuzz", 2, "gen", runs=2500)],
        "thorough": [leg("rel", 16), leg("dbg", 16), leg("miri", 12, "small", of=64, budget=20000), leg("miri-wrap", 8, "from_iter", of=64, budget=20000),
                      leg("fuzz", 8, "gen", runs=20000), leg("fuzz-dbg", 4, "gen", runs=20000)],
    },
    "require": {"quick": [], "thorough": []},
    "level_text": ("exploration: multiset sparse vectors are built exhaustively at small scope and by directed generation, and every present-value query, both set-bit iterator directions and both bit "
                   "iterator directions are compared with a sorted-list-with-duplicates model"),
    "level_note": "trusts the sorted-list model; semantics of zero-side queries on multisets are not defined by the library and are not checked",
    "technique": "runtime monitoring: online reference-model oracle, exhaustive small scope + directed duplicates + coverage-guided legs (libFuzzer with AddressSanitizer / overflow checks) driving the same oracle",
    "assumptions": [],
}

PLANS["C04"] = {
    "driver": "c04",
    "rule": ("cases = (a) every vector of length <= 5 over {0..3} and of length <= 4 over {0..7} (one more each in thorough), all five source item types, every index 0..len+2 and every value incl. absent and "
             "out-of-alphabet ones; (b) widths 1..=16 x lengths {0,1,2,63,64,65,300,5000} x six alphabet shapes (full, single symbol, two symbols sharing low bits, missing values, max exactly 2^(w-1), random) x "
             "four skews; WMCore map_down/map_down_with/map_up_with compared with the stable sort by reversed bits; distinct = digest of (width, length, alphabet shape, skew, item type, content); "
             "non-trivial = at least two distinct symbols or length <= 2"),
    "legs": {
        "quick": [leg("rel", 16), leg("dbg", 16), leg("miri", 6, "small", of=512, budget=3000),
                   leg("fuzz", 2, "gen", runs=1500)],
        "thorough": [leg("rel", 16), leg("dbg", 16), leg("rel-nobmi", 16), leg("miri", 12, "small", of=128, budget=20000),
                      leg("fuzz", 8, "gen", runs=12000), leg("fuzz-dbg", 4, "gen", runs=12000)],
    },
    "require": {"quick": [("counter", "big.model_long_superblocks_first_level_ones", 2), ("counter", "big.model_long_superblocks_first_level_zeros", 2)], "thorough": [("counter", "big.model_long_superblocks_first_level_ones", 2), ("counter", "big.model_long_superblocks_first_level_zeros", 2)]},
    "level_text": ("exploration: wavelet matrices built from exhaustive small vectors and shaped generated vectors are queried through every Vector/Access/VectorIndex method and the core mapping while a plain "
                   "Vec<u64> model (filters and a stable sort by reversed bits) checks every answer"),
    "level_note": "trusts the Vec<u64> model; values and indices on long vectors are sampled",
    "technique": "runtime monitoring: online reference-model oracle, exhaustive small scope + shaped generation + coverage-guided legs (libFuzzer with AddressSanitizer / overflow checks) driving the same oracle",
    "assumptions": ["alphabets up to 2^16 symbols; lengths up to 5000"],
}

PLANS["C09"] = {
    "driver": "c09",
    "rule": ("cases = (a) empty / single-bit / all-zero / all-one / boundary-length / random bit sequences built as BitVector, SparseVector and RLVector, every query with arguments "
             "{0,1,len-1,len,len+1,2len,2^63-1,2^63,2^63+1,MAX-1,MAX} and counts likewise, answers compared with the model AND across the three types; (b) every iterator type, partly consumed, then "
             "nth/nth_back with {0,rem-1,rem,rem+1,2rem,2^63-1,2^63,MAX-1,MAX}; (c) wavelet matrix and core mapping with the same extreme indices/ranks and values incl. absent, 2^width and u64::MAX; "
             "(d) constructors with widths {0,1,2,31,63,64,65,66,128,MAX-1,MAX}, SparseBuilder::new(u, ones>u), RLBuilder::try_set out of order / overflowing; a panic anywhere is a violation in both "
             "debug and release builds; distinct = digest of (part, instance)"),
    "legs": {
        "quick": [leg("rel", 16), leg("dbg", 16), leg("rel-nobmi", 8), leg("miri", 6, "bv", of=64, budget=3000), leg("miri-wrap", 6, "nth", of=48, budget=3000), leg("miri-wrap", 4, "wm", of=64, budget=3000)],
        "thorough": [leg("rel", 16), leg("dbg", 16), leg("rel-nobmi", 16), leg("miri", 12, "bv", of=32, budget=20000), leg("miri-wrap", 12, "nth", of=24, budget=20000), leg("miri-wrap", 8, "wm", of=32, budget=20000), leg("miri", 1, "ctor", budget=20000)],
    },
    "require": {"quick": [("build", "dbg", "overflow_checks", True), ("build", "rel", "overflow_checks", False)], "thorough": [("build", "dbg", "overflow_checks", True), ("build", "rel", "overflow_checks", False)]},
    "level_text": ("exploration: every query of every structure is called with the hostile argument set under catch_unwind in builds with and without overflow checks; the outcome must be the documented answer "
                   "(model extended to all of usize) and identical across the three bitvector types"),
    "level_note": "trusts the models extended to all of usize; for WMCore values with bits above the width only totality is demanded",
    "technique": "runtime monitoring: totality oracle (catch_unwind + extended reference model) in debug and release builds, cross-type agreement",
    "assumptions": [],
}

PLANS["C10"] = {
    "driver": "c10",
    "rule": ("cases = (a) every bit pattern of length <= 6 (plus a multiset over it) x every iterator type (bit / set-bit / unset-bit / run / occurrence / item / owning iterators of all structures) x every starting "
             "point (iter, select_iter(r), select_zero_iter(r), predecessor(v), successor(v) for every r, v) x EVERY call sequence of length <= L over {next, next_back, nth(0..2), nth_back(0..2), nth(MAX)} "
             "(forward-only types: the 5 forward calls); (b) random histories of up to 300 calls incl. len and clone on instances with set bits 0..5 words apart; after every call: returned item and len() vs a "
             "VecDeque model, then the rest is drained and three more calls must return None; distinct = digest of (iterator type, start, call sequence prefix) for random histories, (pattern) for the exhaustive part"),
    "legs": {
        "quick": [leg("dbg", 16, "exh", of=48), leg("rel", 16, "exh", weight=3), leg("rel", 16, "rand"), leg("dbg", 16, "rand"), leg("rel-nobmi", 8, "rand"), leg("miri-wrap", 8, "exh", of=127, scale=2, budget=4000),
                   leg("fuzz", 4, "rand", runs=1200)],
        "thorough": [leg("rel", 16, "exh", weight=3), leg("dbg", 16, "exh", scale=1), leg("rel", 16, "rand"), leg("dbg", 16, "rand"), leg("rel-nobmi", 16, "rand"), leg("miri-wrap", 16, "exh", of=127, scale=2, budget=30000),
                      leg("fuzz", 12, "rand", runs=8000), leg("fuzz-dbg", 4, "rand", runs=8000)],
    },
    "require": {"quick": [("probe", "one_iter_next_skip", 1), ("probe", "one_iter_nth_skip", 1), ("probe", "one_iter_back_skip", 1)]},
    "exhaustive": True,
    "exhaustive_note": "part `exh` enumerates all call sequences up to the stated depth on all bit patterns up to length 6; part `rand` is a sample",
    "level_text": ("exploration with an exhaustive core: all call histories up to depth L on all small instances for every iterator type and starting point, plus long random histories, each step checked against a "
                   "double-ended queue of the reference items"),
    "level_note": "trusts the VecDeque model; histories longer than L are sampled",
    "technique": "runtime monitoring: history + executable sequential model (deque), exhaustive at small scope + coverage-guided legs (libFuzzer with AddressSanitizer / overflow checks) driving the same oracle",
    "assumptions": [],
}
PLANS["C10"]["require"]["thorough"] = PLANS["C10"]["require"]["quick"]

PLANS["C11"] = {
    "driver": "c11",
    "rule": ("cases = every bit sequence of length <= L (and generated sequences up to 20k bits) x all 39 type sequences with 1..3 conversions (From and copy_bit_vec) incl. same-type copies; result must keep "
             "length and positions and be == and byte-identical to the structure the target's own builder makes; plus route independence: RL builder decompositions (random splits, bit at a time, interleaved "
             "set_len), raw-vector push vs iterator vs set_bit for the plain type, set/try_set/extend for the sparse type; distinct = digest of the bit sequence; non-trivial = has set and unset bits"),
    "legs": {
        "quick": [leg("rel", 16), leg("dbg", 16), leg("miri", 6, "small", of=256, budget=1500)],
        "thorough": [leg("rel", 16), leg("dbg", 16), leg("rel-nobmi", 8), leg("miri", 12, "small", of=64, budget=10000)],
    },
    "require": {"quick": [], "thorough": []},
    "level_text": "exploration: conversion chains and alternative builder routes are executed on exhaustive small inputs and generated inputs; equality, serialized bytes and position lists are compared with the directly built structure",
    "level_note": "like is compared with like: BitVector equality includes which supports are enabled, so both sides are built without supports",
    "technique": "runtime monitoring: differential oracle (route A vs route B) + position-list model",
    "assumptions": [],
}

PLANS["C16"] = {
    "driver": "c16",
    "rule": ("cases = (a) every call sequence of length <= L over {try_set(v), set(v) for v in 0..=u+1, extend([v,v+1]/[v,v]/[v+1,v]), convert-a-clone} for universes <= 4 x capacities <= 3 x {set, multiset}; "
             "(b) every sequence of length <= L over {try_set(s in 0..=7, l in 0..=2), set_len(0..=7), convert-a-clone} for the RL builder; (c) random histories of 10..200 calls with ~30% invalid calls, "
             "universes up to usize::MAX, start+len near usize::MAX; all observables are compared with a small state machine after EVERY call (unchanged across a refusal, exact after an acceptance), "
             "and the converted vector with the accepted positions; distinct = digest of the call sequence"),
    "legs": {
        "quick": [leg("dbg", 16, "sparse_exh", of=64), leg("rel", 16, weight=3), leg("dbg", 16, "sparse_rand"), leg("dbg", 16, "rl_rand"), leg("dbg", 16, "rl_exh"), leg("miri", 6, "rl_exh", of=4000, budget=2500), leg("miri", 6, "sparse_exh", of=40000, budget=2500),
                   leg("fuzz", 3, "sparse_rand", runs=3000), leg("fuzz", 3, "rl_rand", runs=1500)],
        "thorough": [leg("dbg", 16, "sparse_exh", of=16), leg("rel", 16, weight=3), leg("dbg", 16, "sparse_rand"), leg("dbg", 16, "rl_rand"), leg("dbg", 16, "rl_exh"), leg("miri", 12, "rl_exh", of=40000, budget=15000), leg("miri", 12, "sparse_exh", of=400000, budget=15000),
                      leg("fuzz", 8, "sparse_rand", runs=15000), leg("fuzz", 8, "rl_rand", runs=2000), leg("fuzz-dbg", 4, "sparse_rand", runs=15000), leg("fuzz-dbg", 4, "rl_rand", runs=2000)],
    },
    "require": {"quick": [], "thorough": []},
    "exhaustive": True,
    "exhaustive_note": "parts sparse_exh / rl_exh enumerate every call sequence up to the stated depth over the stated alphabets; the random parts are samples",
    "level_text": "exploration with an exhaustive core: builder call histories (valid and invalid) run against the real builders while a state machine checks acceptance, every observable and the converted vector",
    "level_note": "trusts the two small state machines; the documented panic of set()/extend() is treated as the refusal",
    "technique": "runtime monitoring: history + executable sequential model, observables snapshotted around every call + coverage-guided legs (libFuzzer with AddressSanitizer / overflow checks) driving the same oracle",
    "assumptions": [],
}

PLANS["C06"] = {
    "driver": "c06",
    "rule": ("cases = values of every Serialize type: u64/usize/(u64,u64), vectors of them, Vec<u8> and String of every length 0..=17 (and page-sized), Option nested to depth 3 incl. None and Some(None), RawVector and "
             "IntVector for every width 1..=64, BitVector x 8 support subsets, RankSupport, SelectSupport<Identity|Complement>, SparseVector (set and multiset), RLVector (0, 1, 9+ blocks, huge runs), WMCore, WaveletMatrix, "
             "empty instances; each: bytes == 8*size_in_elements == size_in_bytes, load from a stream continued by a sentinel consumes exactly that many bytes, loaded == original, query digests equal, re-serialization "
             "identical; streams of 2..8 random structures back to back loaded in sequence; size_by_params over the parameter space; distinct = digest of (type, parameters / bytes)"),
    "legs": {
        "quick": [leg("rel", 16), leg("dbg", 16), leg("miri", 6, "basic", of=24, budget=1500), leg("miri", 6, "streams", scale=40, budget=1200)],
        "thorough": [leg("rel", 16), leg("dbg", 16), leg("rel-nobmi", 8), leg("miri", 12, "basic", of=12, budget=10000), leg("miri", 12, "streams", scale=20, budget=8000)],
    },
    "require": {"quick": [], "thorough": []},
    "level_text": "exploration: every serializable type is round-tripped over generated values with a counting reader and a sentinel, and the loaded copy is compared by ==, by bytes and by query digests",
    "level_note": "the oracle is the value itself; conformance of the bytes to the format document is C07's subject",
    "technique": "runtime monitoring: round-trip oracle with byte accounting over generated values and concatenated streams",
    "assumptions": [],
}

PLANS["C12"] = {
    "driver": "c12",
    "rule": ("cases = (width, buffer size, push sequence, close mode): IntVectorWriter for every width 1..=64 x buffers {0,1,w-1,w,w+1,63,64,65,127,128,129,1000,default} x item counts aimed at the flush boundary "
             "(exactly full, one over, one under, two buffers, random) x push/extend with all five item types; exhaustive width <= 8 x buffer <= 3 words x 0..=40 pushes; RawVectorWriter with mixed push_bit / "
             "push_int(w in 0..=64) whose total ends exactly at, one bit over, or straddles the buffer end; close modes {close, close+close, drop, close then drop}; the whole file is compared byte by byte with "
             "serialize() of the in-memory vector, len() and is_open() checked; distinct = digest of (width, buffer, count, mode)"),
    "legs": {
        "quick": [leg("rel", 16), leg("dbg", 16),
                   leg("fuzz", 2, "raw", runs=6000), leg("fuzz", 2, "int", runs=6000)],
        "thorough": [leg("rel", 16), leg("dbg", 16), leg("asan", 8, "raw"),
                      leg("fuzz", 6, "raw", runs=60000), leg("fuzz", 6, "int", runs=60000), leg("fuzz-dbg", 3, "raw", runs=40000), leg("fuzz-dbg", 3, "int", runs=40000)],
    },
    "require": {"quick": [("probe", "flush_safe_carry", 1), ("probe", "flush_safe_exact", 1), ("probe", "flush_final_empty", 1), ("probe", "flush_final_nonempty", 1)]},
    "level_text": "exploration: writer configurations aimed at every flush regime run against real files; the file left behind is compared byte for byte with the in-memory serialization; flush-regime probes must all fire",
    "level_note": "file system is the sandbox's tmp directory under /verif/.cache; the oracle is the in-memory vector fed the same pushes",
    "technique": "runtime monitoring: differential oracle (file vs in-memory serialization) + flush-regime probes + coverage-guided legs (libFuzzer with AddressSanitizer / overflow checks) driving the same oracle",
    "assumptions": [],
}
PLANS["C12"]["require"]["thorough"] = PLANS["C12"]["require"]["quick"]

PLANS["C13"] = {
    "driver": "c13",
    "rule": ("cases = files made of 1..9 concatenated values from {Vec<u64>, Vec<(u64,u64)>, Vec<u8>, String, Option<Vec<u64>> Some/None, RawVector, IntVector} incl. empty ones in last position; every structure "
             "viewed at its own offset with the matching view type (content, map_offset, map_len), views chained through map_offset + map_len must tile the file, 8 offsets outside the file "
             "(len, len+1, 2len, 2^63-1, 2^63, MAX-2, MAX-1, MAX) x 8 view types must be refused, and every 8-byte truncation of the file x every structure: untouched structures still map, cut ones are refused; "
             "distinct = digest of the file bytes; non-trivial = at least two structures"),
    "legs": {
        "quick": [leg("rel", 16), leg("dbg", 16), leg("asan", 8), leg("valgrind", 4, scale=10)],
        "thorough": [leg("rel", 16), leg("dbg", 16), leg("asan", 16), leg("valgrind", 8, scale=10), leg("bounds", 8)],
    },
    "require": {"quick": [("probe", "mmap_new", 100)], "thorough": [("probe", "mmap_new", 100)]},
    "level_text": "exploration: real files are mapped with real mmap; every view type is compared with the value that was serialized, at every structure offset, bad offset and truncation point, natively and under AddressSanitizer and memcheck",
    "level_note": "Miri cannot run file-backed mmap, so the interpreter is not used here",
    "technique": "runtime monitoring: content oracle over mapped files + offset/truncation sweeps, ASan and valgrind memcheck on the mapped paths",
    "assumptions": [],
}

PLANS["C14"] = {
    "driver": "c14",
    "level": "fault_enumeration",
    "rule": ("fault points = for one instance of every Serialize type (30 instances incl. empty ones): every byte prefix 0..size-1 x 3 reader behaviours (slice, 1-byte reads, Interrupted once) must make load return Err; "
             "every prefix of the instance wrapped as an optional must make skip_option return Err; every write budget 0..size-1 x 3 sink behaviours (Err at budget, short writes then Err, Ok(0)) must make serialize "
             "return Err with the accepted bytes a prefix of the true serialization; every element truncation of mapped files x every structure cut; one child process per RLIMIT_FSIZE value 0..=size+8 for 6..11 writer "
             "configurations: close() may report Ok only if the file is complete and identical; distinct = (instance or file or writer configuration)"),
    "legs": {
        "quick": [leg("rel", 16), leg("dbg", 16), leg("miri", 6, "load", of=30, budget=2500), leg("miri", 4, "sink", of=30, budget=2500)],
        "thorough": [leg("rel", 16), leg("dbg", 16), leg("asan", 8, "load"), leg("miri", 12, "load", of=30, budget=15000), leg("miri", 8, "sink", of=30, budget=15000), leg("miri", 4, "skip", of=30, budget=15000)],
    },
    "require": {"quick": [("counter", "fault_points.load", 10000), ("counter", "fault_points.sink", 10000), ("counter", "fault_points.skip", 1000), ("counter", "fault_points.maps", 1000),
                          ("counter", "fault_points.writers", 500), ("counter", "writers.outcome.close_ok", 1), ("counter", "writers.outcome.close_err", 1), ("counter", "writers.outcome.push_panic", 1), ("probe", "skip_option", 100)]},
    "exhaustive": True,
    "exhaustive_note": "per instance every truncation point / write budget / file-size limit (step 1 up to 512 bytes, step 8 above) is enumerated; the set of instances is a sample of each type",
    "level_text": ("fault enumeration: for each instance every fault point of each kind is injected from outside (truncated readers, failing sinks, truncated mapped files, RLIMIT_FSIZE in a child process) and the "
                   "outcome class (Ok / Err / panic) is checked; success may be reported only for complete, identical data"),
    "level_note": "faults are injected at the Read/Write/file boundary, not inside the library; one instance per type and parameter class",
    "technique": "runtime monitoring with fault injection: exhaustive enumeration of truncation points, write budgets and file-size limits per instance",
    "assumptions": ["SIGXFSZ is ignored in the child so that writes past the limit return EFBIG"],
}
PLANS["C14"]["require"]["thorough"] = PLANS["C14"]["require"]["quick"]

PLANS["C18"] = {
    "driver": "c18",
    "rule": ("cases = file sizes {0, 8, 16, 24, 4088, 4096, 4104, 8192, 12288, 65536, 65544, 1 MiB+8, 64 MiB sparse, ...} x {ReadOnly, Mutable}: /proc/self/maps lines naming the unique file before new / while alive / "
             "after drop, mapped slice vs fs::read, pointer printed by Debug, write-through for mutable maps; sizes {1..7, 9, 15, 4097, 4100, 65537} and a missing file must be refused; 6..60 rounds of up to 200 "
             "map/drop cycles with 1..5 maps of 1..4 files alive at once and random drop order, address space checked after every cycle; a child process with RLIMIT_AS 512 MiB..2 GiB mapping a 4 GiB sparse file must "
             "get an error; distinct = (size, mode) / (round parameters)"),
    "legs": {
        "quick": [leg("rel", 8), leg("dbg", 8), leg("asan", 4, "sizes"), leg("asan", 4, "cycles"), leg("valgrind", 2, "sizes")],
        "thorough": [leg("rel", 16), leg("dbg", 16), leg("asan", 8, "sizes"), leg("asan", 8, "cycles"), leg("valgrind", 4, "sizes"), leg("valgrind", 4, "cycles", scale=4)],
    },
    "require": {"quick": [("counter", "refused.outcome.err", 1), ("probe", "mmap_new", 100), ("probe", "mmap_drop", 100)]},
    "level_text": "exploration: real files are mapped and dropped while the process's own address space (/proc/self/maps), the file bytes and the map's pointer are observed from outside the library; OS refusal is provoked in a child process",
    "level_note": "Linux-specific oracle (/proc/self/maps); Miri cannot run mmap",
    "technique": "runtime monitoring: address-space monitor (/proc/self/maps) + content oracle + RLIMIT_AS fault injection in a subprocess, ASan/valgrind legs",
    "assumptions": ["temporary file names are unique, so a mapping line naming the file belongs to this map"],
}
PLANS["C18"]["require"]["thorough"] = PLANS["C18"]["require"]["quick"]

PLANS["C19"] = {
    "driver": "c19",
    "rule": ("cases = plain bitvectors (boundary lengths, random, and vectors with long select superblocks) x 8 support subsets at write time x enable orders x a serialize/load round trip before step 0..3: "
             "supports_* after load == written subset, enabling is idempotent, the fully enabled result is == and byte-identical to the fully enabled original and answers like the model; sparse vectors whose "
             "embedded bitvector keeps any subset of its supports, wavelet matrices / cores whose levels carry no / all / random supports (files rewritten by an independent byte walker) must load, be == to the "
             "original and answer all queries; skip_option over optionals holding every serializable type, plain and nested, must land exactly on the next element; absent_option/absent_option_size; "
             "distinct = digest of the instance"),
    "legs": {
        "quick": [leg("rel", 16), leg("dbg", 16), leg("miri", 6, "subsets", of=24, budget=1200), leg("miri", 4, "composites", of=40, budget=1200)],
        "thorough": [leg("rel", 16), leg("dbg", 16), leg("rel-nobmi", 8), leg("miri", 12, "subsets", of=24, budget=10000), leg("miri", 8, "composites", of=40, budget=10000)],
    },
    "require": {"quick": [("probe", "sel_build_long", 1), ("probe", "skip_option", 10)], "thorough": [("probe", "sel_build_long", 1), ("probe", "skip_option", 10)]},
    "level_text": "exploration: support-subset x enable-order x round-trip interleavings on generated bitvectors, and composite files rewritten without (or with arbitrary) embedded supports, checked against the fully enabled original and the reference model",
    "level_note": "the byte walker that strips supports follows SERIALIZATION.md and is cross-checked against a second implementation in the harness",
    "technique": "runtime monitoring: differential oracle against the fully enabled original + reference model, files rewritten by an independent format walker",
    "assumptions": [],
}

PLANS["C20"] = {
    "driver": "c20",
    "rule": ("cases = rounds of 2..64 threads x 10..10000 calls each of temp_file_name behind a barrier, with the same or per-thread name parts; every returned path is checked against ALL earlier paths of the process "
             "and for its name part; the counter embedded in the name orders the calls, so each round yields the linearization actually taken: thread switches are counted and the thread-id sequence is digested; "
             "distinct = distinct observed interleavings (digest of the thread-id order); non-trivial = at least one thread switch"),
    "legs": {
        "quick": [leg("rel", 8), leg("dbg", 4), leg("tsan", 4, scale=4), leg("miri", 8, scale=10, budget=100000, env={"MIRIFLAGS_EXTRA": "-Zmiri-preemption-rate=0.3"}, of=8)],
        "thorough": [leg("rel", 16), leg("dbg", 16), leg("tsan", 8, scale=2), leg("miri", 16, scale=2, budget=100000, env={"MIRIFLAGS_EXTRA": "-Zmiri-preemption-rate=0.3"}, of=16)],
    },
    "require": {"quick": [("counter", "thread_switches_observed", 1000), ("build", "tsan", "miri", False)]},
    "level_text": ("exploration of schedules: the real function is called from up to 64 threads; uniqueness is checked over every name the process ever returned, natively, under ThreadSanitizer (data-race detector) and under "
                   "Miri with randomized preemption and one scheduler seed per shard; the evidence reports how many distinct interleavings were observed"),
    "level_note": "a finite sample of schedules; 'all interleavings' is out of reach for runtime monitoring and the evidence says how many were seen",
    "technique": "runtime monitoring: uniqueness monitor over unambiguous histories (counter embedded in each name), ThreadSanitizer, Miri with seeded preemption",
    "assumptions": [],
}
PLANS["C20"]["require"]["thorough"] = PLANS["C20"]["require"]["quick"]


PLANS["C07"] = {
    "driver": "c07",
    "work_dir": True,
    "rule": ("cases = (writer direction) structures of every documented type from the C01-C05 generators (BitVector with any subset of supports, RawVector, IntVector of every width, SparseVector incl. every low "
             "width class and multisets, RLVector by code-unit profile with 0..2500 runs, WaveletMatrix, WMCore, byte vectors, strings, vectors, optionals) serialized by the library and decoded by an independent "
             "Python codec written from SERIALIZATION.md alone, which also checks the document's requirements (8-byte elements, zero padding, zero unused bits, exactly one bucket per universe slice, whole runs per "
             "64-unit block, padding only where the next run did not fit and never in the final block, one exact sample per block, minimal sample / `first` widths); (reader direction) files produced by the Python "
             "encoder with supports absent, every sparse low width 1..=64 and minimal or wider RL sample widths, loaded by the real loader and queried against the model; distinct = digest of the file bytes"),
    "legs": {
        "quick": [leg("rel", 8, "write", dir=True, stage=0),
                  leg("python", 8, python="fmt/check_written.py", pyargs=["{dir}", "{shard}", "{nshards}"], stage=1),
                  leg("python", 1, python="fmt/encode_cases.py", pyargs=["{dir}", "{seed}", "700"], stage=1),
                  leg("rel", 8, "read", dir=True, stage=2), leg("dbg", 8, "read", dir=True, stage=2)],
        "thorough": [leg("rel", 16, "write", dir=True, stage=0),
                     leg("python", 16, python="fmt/check_written.py", pyargs=["{dir}", "{shard}", "{nshards}"], stage=1),
                     leg("python", 1, python="fmt/encode_cases.py", pyargs=["{dir}", "{seed}", "6000"], stage=1),
                     leg("rel", 16, "read", dir=True, stage=2), leg("dbg", 16, "read", dir=True, stage=2), leg("rel-nobmi", 8, "read", dir=True, stage=2)],
    },
    "require": {"quick": [("counter", "written.sparse", 100), ("counter", "written.rl", 100), ("counter", "written.wm", 50), ("counter", "read.sparse", 50), ("counter", "read.rl", 50), ("counter", "read.wm", 50),
                          ("counter", "read.sparse.width.64", 1), ("counter", "read.sparse.width.1", 1)]},
    "level_text": ("exploration with an independent second implementation: bytes written by the library are decoded and validated by a codec written from the format document alone, and files written by that codec "
                   "are loaded and queried through the real library against the reference model"),
    "level_note": "conformance is to this reading of SERIALIZATION.md; ambiguities are resolved in the library's favour and listed under assumptions",
    "technique": "runtime monitoring: differential oracle against an independent format codec (both directions) + reference-model query monitors on foreign files",
    "assumptions": ["empty RL vector: sample width 1 is taken as minimal", "wavelet matrix of an empty vector: alphabet {0}, width 1", "WMCore width is only required to hold the largest item",
                    "sparse low width: any w in 1..=64 is treated as admissible for a foreign writer (the document says w ~ log2(n) - log2(m), w >= 1)",
                    "optional support structures are written as absent by the foreign writer (they cannot be produced opaquely)",
                    "run-length files: a final block of exactly 64 code units whose tail is zero padding is treated as admissible for a foreign writer (the document only forbids padding in a final block that is not full); the unchanged library accepts such files"],
}
PLANS["C07"]["require"]["thorough"] = PLANS["C07"]["require"]["quick"]


PLANS["C08"] = {
    "driver": "c08",
    "rule": ("cases = structure instance + random sequence of 1..30 calls to safe public methods (122 methods of RawVector, IntVector, BitVector, RankSupport, SelectSupport<Identity|Complement> with matching and "
             "mismatching parents, Transformation::word/bit, SparseVector, RLVector, their builders, WaveletMatrix, WMCore, mapped views' Index/Deref/bit/word/get) with arguments from "
             "{0,1,len-1,len,len+1,len+63,next word,2len,2^63,MAX-1,MAX,random}, iterator adaptors walked with nth/nth_back(MAX), on instances built through every route, with spare capacity, after pops/clears, "
             "loaded from bytes the library wrote, and memory-mapped; every call is recorded before it is made and run under catch_unwind (panics are legal); verdict = interpreter / sanitizer / memcheck report, "
             "fatal signal, or the sticky flag of the bounds hooks in the unchecked accessors; other properties' workloads are replayed under ASan / valgrind / bounds hooks for process-level verdicts; "
             "distinct = (method, argument class) pairs and (part, instance) digests"),
    "legs": {
        "quick": [leg("rel", 8), leg("dbg", 8), leg("rel-nobmi", 4), leg("dbg-nobmi", 4), leg("bounds", 8), leg("asan", 8), leg("valgrind", 8, scale=8),
                  leg("miri", 5, "raw", of=4000, budget=1500), leg("miri-wrap", 5, "bv", of=4000, budget=1500), leg("miri-wrap", 3, "sparse", of=4000, budget=1200), leg("miri-wrap", 3, "rl", of=4000, budget=800),
                  leg("miri", 2, "wm", of=3000, budget=1200), leg("miri-native", 2, "bv", of=4000, budget=1200),
                  leg("asan", 4, driver="c10", part="rand"), leg("asan", 4, driver="c01", part="boundary"), leg("asan", 2, driver="c09"), leg("asan", 1, driver="c06", part="bitvectors"), leg("bounds", 4, driver="c10", part="rand"), leg("bounds", 4, driver="c01", part="regime"),
                   leg("fuzz", 2, "raw", runs=15000), leg("fuzz", 2, "bv", runs=15000), leg("fuzz", 2, "sparse", runs=15000), leg("fuzz", 2, "rl", runs=15000), leg("fuzz", 2, "wm", runs=15000)],
        "thorough": [leg("rel", 16), leg("dbg", 16), leg("rel-nobmi", 16), leg("dbg-nobmi", 16), leg("bounds", 16), leg("asan", 16), leg("valgrind", 16, scale=4),
                     leg("miri", 8, "raw", of=40000, budget=5000), leg("miri-wrap", 8, "bv", of=40000, budget=5000), leg("miri-wrap", 6, "sparse", of=40000, budget=4000), leg("miri-wrap", 6, "rl", of=40000, budget=4000),
                     leg("miri", 4, "wm", of=30000, budget=4000), leg("miri-native", 4, "bv", of=40000, budget=4000), leg("miri-native", 4, "sparse", of=40000, budget=4000),
                     leg("asan", 8, driver="c10", part="rand"), leg("asan", 8, driver="c10", part="exh", scale=2), leg("asan", 8, driver="c01"), leg("asan", 8, driver="c02"), leg("asan", 8, driver="c03"),
                     leg("asan", 4, driver="c04"), leg("asan", 4, driver="c05"), leg("asan", 4, driver="c09"), leg("asan", 4, driver="c15"), leg("asan", 4, driver="c19"),
                     leg("bounds", 8, driver="c10", part="rand"), leg("bounds", 8, driver="c01"), leg("bounds", 8, driver="c02"), leg("bounds", 8, driver="c03"), leg("bounds", 4, driver="c09"),
                     leg("valgrind", 8, driver="c09", scale=8), leg("valgrind", 8, driver="c10", part="rand", scale=8),
                      leg("fuzz", 4, "raw", runs=30000), leg("fuzz", 4, "bv", runs=30000), leg("fuzz", 4, "sparse", runs=30000), leg("fuzz", 4, "rl", runs=30000), leg("fuzz", 4, "wm", runs=30000)],
    },
    "require": {"quick": [("counter", "coverage.methods", 100), ("counter", "calls_panicked", 100), ("build", "bounds", "bounds", True), ("build", "rel", "overflow_checks", False),
                          ("build", "dbg", "overflow_checks", True), ("build", "rel-nobmi", "bmi2", False), ("build", "miri", "miri", True), ("build", "miri-wrap", "overflow_checks", False), ("probe", "mmap_new", 10)]},
    "level_text": ("exploration under instrumentation: hostile sequences of safe calls run in eight build configurations; Miri (overflow checks on and off, with and without BMI2), AddressSanitizer, valgrind memcheck "
                   "and the feature-guarded bounds hooks watch for any access outside a structure's buffers; a clean run means no report on the executions produced, not memory safety"),
    "level_note": "exactly the limits of the tools: ASan/memcheck miss strays that land in live memory (hence the hooks), Miri cannot run the mmap paths (hence ASan/valgrind there); nothing is said about call sequences not generated",
    "technique": "runtime monitoring with sanitizers: Miri, AddressSanitizer, valgrind memcheck, bounds hooks, signal monitor over a hostile safe-API workload + coverage-guided legs (libFuzzer with AddressSanitizer / overflow checks) driving the same oracle",
    "assumptions": ["allocation sizes are capped by the workload (an allocation failure aborts and proves nothing about memory safety)"],
}
PLANS["C08"]["require"]["thorough"] = PLANS["C08"]["require"]["quick"]

# Portable (no-BMI2) code paths with overflow checks on: what a user gets from a debug build without target-cpu=native.
# A strided sample (shards 0..k-1 of 16) of each query-heavy workload.
for _p, _part, _kq, _kt in [("C02", None, 5, 16), ("C03", None, 5, 16), ("C04", None, 4, 16), ("C09", None, 4, 16), ("C10", "rand", 6, 16), ("C15", None, 4, 16), ("C19", None, 4, 16)]:
    PLANS[_p]["legs"]["quick"].append(leg("dbg-nobmi", _kq, _part, of=16))
    PLANS[_p]["legs"]["thorough"].append(leg("dbg-nobmi", _kt, _part, of=16))

# C13 page_exact: the guard page behind an exact-page mapping must have been in place at least once, else the
# "reads nothing past the file" observation did not happen.
PLANS["C13"].setdefault("require", {}).setdefault("quick", []).append(("counter", "page_exact.guard_pages_placed", 1))
PLANS["C13"]["require"].setdefault("thorough", []).append(("counter", "page_exact.guard_pages_placed", 1))

# Workload added after the seeded-defect rounds (appended to the rule texts that the evidence files quote).
_RULE_ADDENDA = {
    "C01": "; (d) vectors whose set/unset bits sit only in chosen words of each 512-bit block (every single word, first+last, alternating empty blocks); extreme arguments for every query; bitvectors converted out of multisets",
    "C02": "; zero-run cases shifted to the top of universes next to 2^64; clustered vectors of 10^5+ values (part large)",
    "C03": "; decompositions with no-op set_len / empty runs / refused calls between the pieces of one run; (fit) every (units already in the block, gap code length, run code length) combination at a block end",
    "C04": "; constant, length-1 and empty vectors; select_iter from ranks 0..usize::MAX through next/nth/skip/count",
    "C06": "; loads through a short-read reader; serialize_to over an existing longer file; 2.2 Mbit bitvector with long/short/partial select superblocks; universes near 2^64",
    "C07": "; vectors produced by push/pop/resize histories and by conversions (out of sets, multisets, run-length vectors); every structure kind also as the body of a present optional structure, incl. wavelet matrices with levels of different sizes",
    "C08": "; 1.2 Mbit bitvectors with long superblocks whose iterators are walked to the end; wrap-around lengths for RawVector::with_len; mappers' and writers' accessors; bounds-hook hits in replayed workloads count",
    "C09": "; nth_back after items taken from the front (and nth after items taken from the back) followed by len/size_hint/nth(0)",
    "C10": "; run-length instances built through four builder decompositions",
    "C11": "; Sparse/RL chains over universes 2^48..usize::MAX (part huge), every intermediate value validated before it is converted again; multisets with duplicates converted to BitVector",
    "C12": "; every third case writes over an existing longer file; extend with iterators without an exact size hint; accessors (is_empty, width, filename, max_len)",
    "C13": "; files of an exact number of pages ending with a raw/integer vector, an inaccessible page placed directly behind the mapping (part page_exact); non-ASCII strings",
    "C14": "; close() again after every reported failure; serialize_to on /dev/full and under RLIMIT_FSIZE; mapped files cut inside an element",
    "C15": "; multisets of 10^5..3*10^5 values (overfull tiny universes, far-apart clusters of duplicates, crowded buckets) (part large)",
    "C16": "; conversion compared with a vector built from scratch from the accepted values (==, bytes, backward walk); RL runs meeting a block end in every way (rl_fit)",
    "C18": "; after every single drop the surviving maps are accounted for in /proc/self/maps and read; files with mode 0444 mapped mutably (privileged process); refused files leave no mapping",
    "C19": "; enable_pred_succ() as the first enabler; rewritten files also loaded as the body of Option<...>; skip_option over library-written optional structures (skewed wavelet matrices, nested) and through short-read readers",
    "C20": "; name parts of ten classes, different spellings of one location compared after lexical normalisation, 243..300-byte parts; one thread asking for 2^20+ names; fresh processes whose first calls are concurrent; stale files at future numbers",
}
for _p, _t in _RULE_ADDENDA.items():
    if _t not in PLANS[_p]["rule"]:
        PLANS[_p]["rule"] = PLANS[_p]["rule"] + _t
