#!/usr/bin/env python3
"""Re-runs the registered quick checks against every seeded defect under /verif/seeded and rewrites seeded/RESULTS.md.

usage: reeval_seeded.py [ids...] [--cfgs rel,dbg] [--also-cross]

Each defect is applied in the scratch worktree /tmp/ev/cur (never in /repo), the quick check of its property is run with
VERIF_REPO pointing there, and the outcome is recorded in seeded/<id>/meta.json under "checks_final".
"""
import json
import os
import re
import subprocess
import sys
import time

VERIF = os.path.dirname(os.path.abspath(__file__))
W = os.environ.get("VERIF_EV_DIR", "/tmp/ev/cur")


def sh(cmd, cwd=None, env=None, timeout=6000):
    p = subprocess.run(cmd, shell=True, cwd=cwd, env=env, stdout=subprocess.PIPE, stderr=subprocess.STDOUT, text=True, timeout=timeout)
    return p.returncode, p.stdout


def table():
    rows = []
    summaries = {}
    sp = os.path.join(VERIF, "seeded", "summaries.json")
    if os.path.exists(sp):
        summaries = json.load(open(sp))
    for sid in sorted(os.listdir(os.path.join(VERIF, "seeded"))):
        mp = os.path.join(VERIF, "seeded", sid, "meta.json")
        if not os.path.exists(mp):
            continue
        m = json.load(open(mp))
        checks = m.get("checks_final") or m.get("checks", {})
        cells = []
        for p, c in sorted(checks.items()):
            cells.append("%s: %s%s" % (p, "**caught**" if c.get("caught") else ("not caught (exit %s)" % c.get("exit")), (" — " + ", ".join(c.get("signatures", [])[:3])) if c.get("caught") else ""))
        sm = summaries.get(sid, {})
        needs = (sm.get("needs") or m.get("needs_to_manifest") or "").replace("\n", " ").replace("|", "/")[:300]
        rows.append("| %s | %s | %s | %s | %s |" % (sid, m.get("property"), (sm.get("summary") or m.get("summary") or "").replace("|", "/"), needs, "<br>".join(cells)))
    out = ["# Seeded defects and which checks catch them", "",
           "Each defect was written by an independent sub-agent that saw only the property text and a scratch worktree; it compiles, passes the 147 unit + 79 doc tests, and comes with a demo (`demo.rs`) that fails with the change and passes without it (confirmed by `eval_mutant.py`, recorded in `meta.json`).",
           "`checks_final` in each `meta.json` is the result of the registered quick check run against a scratch worktree with the change applied (`VERIF_REPO`), with the harness as committed.", "",
           "| id | property | change | needs to manifest | quick checks |", "|---|---|---|---|---|"] + rows
    open(os.path.join(VERIF, "seeded", "RESULTS.md"), "w").write("\n".join(out) + "\n")


def main():
    args = [a for a in sys.argv[1:] if not a.startswith("--")]
    cfgs = sys.argv[sys.argv.index("--cfgs") + 1] if "--cfgs" in sys.argv else ""
    if cfgs in args:
        args.remove(cfgs)
    ids = args or sorted(d for d in os.listdir(os.path.join(VERIF, "seeded")) if os.path.isdir(os.path.join(VERIF, "seeded", d)))
    if "--table-only" in sys.argv:
        table()
        return 0
    for sid in ids:
        d = os.path.join(VERIF, "seeded", sid)
        mp = os.path.join(d, "meta.json")
        if not os.path.exists(mp):
            continue
        m = json.load(open(mp))
        sh("git -C /repo worktree remove --force %s; rm -rf %s; git -C /repo worktree prune" % (W, W))
        rc, out = sh("git -C /repo worktree add -q --detach %s HEAD && cp /repo/Cargo.lock %s/" % (W, W))
        rc, out = sh("git apply %s/patch.diff" % d, cwd=W)
        at = "HEAD"
        if rc != 0 and m.get("base_commit"):
            # /repo has moved on (a later fix: commit rewrote the same lines): evaluate at the commit the change was made for.
            sh("git checkout -q --detach %s && git checkout -q -- ." % m["base_commit"], cwd=W)
            rc, out = sh("git apply %s/patch.diff" % d, cwd=W)
            at = m["base_commit"][:7]
        if rc != 0:
            print(sid, "patch does not apply", out)
            continue
        m["evaluated_at"] = at
        final = {}
        props = [m["property"]] + [p for p in m.get("also_check", [])]
        for p in props:
            env = dict(os.environ)
            env["VERIF_REPO"] = W
            if cfgs:
                env["VERIF_ONLY_CFGS"] = cfgs
            t0 = time.time()
            rc, out = sh("python3 run_check.py %s --tier quick 2>&1" % p, cwd=VERIF, env=env)
            sigs = sorted(set(re.findall(r"^  sig=(\S+)", out, re.M)))
            last = [l for l in out.splitlines() if re.match(r"^C\d+ quick", l)]
            final[p] = {"cmd": "VERIF_REPO=<scratch worktree with the change>%s python3 run_check.py %s --tier quick" % ((" VERIF_ONLY_CFGS=" + cfgs) if cfgs else "", p),
                        "exit": rc, "caught": rc == 1, "signatures": sigs[:12], "summary": last[-1] if last else out[-300:], "wall_s": round(time.time() - t0, 1)}
            print("%s check %s: exit %d caught=%s %s" % (sid, p, rc, rc == 1, sigs[:5]), flush=True)
        m["checks_final"] = final
        json.dump(m, open(mp, "w"), indent=1)
    sh("git -C /repo worktree remove --force %s; rm -rf %s; git -C /repo worktree prune" % (W, W))
    table()
    return 0


if __name__ == "__main__":
    sys.exit(main())
