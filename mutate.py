#!/usr/bin/env python3
"""Syntactic mutation sampling: how many small source changes that survive the crate's own tests do the checks catch?

usage: mutate.py --n 120 [--seed 1] [--files src/bits.rs,...] [--cfgs rel,dbg] [--resume]

Not a registered check; a measurement of the checks (complements the hand-made seeded defects under seeded/).
A mutant is one operator replacement on one line of /repo/src (never in tests, comments, hooks).  For each sampled mutant,
in the scratch worktree /tmp/ev/m (never in /repo):
  1. `cargo build --lib` must succeed (else: uncompilable, not counted);
  2. `cargo test --lib` (the 147 unit tests): a failure means the crate's own suite kills it (not counted against the checks);
  3. the quick checks of the properties anchored in that file are run (VERIF_REPO=<scratch>, VERIF_ONLY_CFGS=<cfgs>) until
     one reports a violation;
  4. if none does, the doc tests are run as well, to tell "survives the whole suite" from "killed by a doc test".
Results: mutation/results.jsonl (one line per mutant) and mutation/SUMMARY.md.  Survivors are listed with their diff so
that each can be judged (equivalent mutant, outside every property, or a gap to close).
"""
import hashlib
import json
import os
import random
import re
import subprocess
import sys
import time

VERIF = os.path.dirname(os.path.abspath(__file__))
W = "/tmp/ev/m"
OUT = os.path.join(VERIF, "mutation")

# Which properties are anchored in which file (order = which check is tried first).
FILE_PROPS = {
    "src/bits.rs": ["C17", "C01", "C05"],   # C17 needs a configuration without BMI2 as well: see CFGS_FOR
    "src/raw_vector.rs": ["C05", "C12", "C13", "C09", "C01"],
    "src/int_vector.rs": ["C05", "C12", "C13", "C09", "C04"],
    "src/bit_vector.rs": ["C01", "C10", "C19", "C09", "C11"],
    "src/bit_vector/rank_support.rs": ["C01", "C19", "C06"],
    "src/bit_vector/select_support.rs": ["C01", "C19", "C06"],
    "src/sparse_vector.rs": ["C02", "C15", "C16", "C10", "C09", "C11", "C07"],
    "src/rl_vector.rs": ["C03", "C16", "C10", "C09", "C11"],
    "src/rl_vector/index.rs": ["C03", "C06"],
    "src/wavelet_matrix.rs": ["C04", "C09", "C06"],
    "src/wavelet_matrix/wm_core.rs": ["C04", "C09", "C19"],
    "src/serialize.rs": ["C06", "C14", "C13", "C18", "C20", "C19"],
    "src/ops.rs": ["C04", "C09"],
}

# Extra build configurations per property (the portable select of bits.rs only exists without BMI2).
CFGS_FOR = {"C17": "rel,dbg,rel-nobmi,dbg-nobmi"}

OPERATORS = [
    (r" \+ 1\b", " - 1"), (r" - 1\b", " + 1"), (r" \+ 1\b", ""), (r" - 1\b", ""),
    (r" < ", " <= "), (r" <= ", " < "), (r" > ", " >= "), (r" >= ", " > "),
    (r" == ", " != "), (r" != ", " == "), (r" && ", " || "), (r" \|\| ", " && "),
    (r" \+ ", " - "), (r" - ", " + "), (r" \* ", " + "), (r" / ", " * "), (r" % ", " / "),
    (r" >> ", " << "), (r" << ", " >> "), (r" & ", " | "), (r" \| ", " & "),
    (r"\btrue\b", "false"), (r"\bfalse\b", "true"), (r"if !", "if "), (r"\bsaturating_sub\b", "wrapping_sub"),
    (r"\bsaturating_add\b", "wrapping_add"), (r"\bmin\(", "max("), (r"\bmax\(", "min("),
    (r"\bWORD_BITS\b", "(WORD_BITS - 1)"), (r"\b0\b", "1"), (r"\b1\b", "0"), (r"\b64\b", "63"),
    (r"\.len\(\)", ".len().wrapping_sub(1)"), (r"return None;", "return Some(Default::default());"),
]


def sh(cmd, cwd=None, env=None, timeout=1200):
    try:
        p = subprocess.run(cmd, shell=True, cwd=cwd, env=env, stdout=subprocess.PIPE, stderr=subprocess.STDOUT, text=True, timeout=timeout)
        return p.returncode, p.stdout
    except subprocess.TimeoutExpired as e:
        return 124, (e.stdout or b"").decode("utf-8", "replace") if isinstance(e.stdout, bytes) else (e.stdout or "")


def candidate_lines(path):
    """(line number, text) of lines that may be mutated."""
    out = []
    lines = open(path).read().split("\n")
    in_test = False
    skip_next = False
    for i, l in enumerate(lines):
        t = l.strip()
        if t.startswith("#[cfg(test)]"):
            nxt = lines[i + 1].strip() if i + 1 < len(lines) else ""
            if nxt.endswith(";"):
                continue   # `mod tests;`: the tests live in a separate file
            in_test = True   # an inline test module (always at the end of the file in this crate)
        if in_test:
            continue
        if re.match(r"^[0-9A-Fa-fx_, ]+$", t):
            continue   # rows of lookup tables
        if skip_next:
            skip_next = False
            continue
        if t.startswith("#[cfg(feature = \"verif"):
            skip_next = True   # the hook line that follows
            continue
        if not t or t.startswith("//") or t.startswith("#[") or t.startswith("use ") or t.startswith("pub use ") or t.startswith("mod ") or t.startswith("pub mod "):
            continue
        if "verif::" in l or "debug_assert" in l or "panic!(" in l or "Error::new" in l or t.startswith("assert!(") or "const " in t and "fn" not in t:
            continue
        code = l.split("//")[0]
        if not code.strip():
            continue
        out.append((i, code, l))
    return lines, out


def all_mutants(files):
    muts = []
    for f in files:
        lines, cands = candidate_lines(os.path.join("/repo", f))
        for i, code, full in cands:
            for pat, rep in OPERATORS:
                for m in re.finditer(pat, code):
                    if code[:m.start()].count('"') % 2 == 1:
                        continue   # inside a string literal (messages are not behaviour)
                    new = full[:m.start()] + rep + full[m.end():]
                    if new != full:
                        muts.append({"file": f, "line": i + 1, "old": full.strip(), "new": new.strip(), "pos": m.start(), "op": "%s -> %s" % (pat, rep), "new_full": new})
                    break   # first occurrence per operator per line
    return muts


def main():
    n = int(sys.argv[sys.argv.index("--n") + 1]) if "--n" in sys.argv else 60
    seed = int(sys.argv[sys.argv.index("--seed") + 1]) if "--seed" in sys.argv else 1
    cfgs = sys.argv[sys.argv.index("--cfgs") + 1] if "--cfgs" in sys.argv else "rel,dbg"
    files = sys.argv[sys.argv.index("--files") + 1].split(",") if "--files" in sys.argv else sorted(FILE_PROPS)
    os.makedirs(OUT, exist_ok=True)
    res_path = os.path.join(OUT, "results.jsonl")
    done = set()
    if "--resume" in sys.argv and os.path.exists(res_path):
        for l in open(res_path):
            done.add(json.loads(l)["id"])
    muts = all_mutants(files)
    rng = random.Random(seed)
    # Stratified by file (equal weight per file, then by line), so that small files are not drowned.
    by_file = {}
    for m in muts:
        by_file.setdefault(m["file"], []).append(m)
    sample = []
    order = sorted(by_file)
    while len(sample) < n and any(by_file.values()):
        for f in order:
            if by_file[f] and len(sample) < n:
                sample.append(by_file[f].pop(rng.randrange(len(by_file[f]))))
    print("mutants available: %d, sampled: %d" % (len(muts), len(sample)), flush=True)

    head = sh("git -C /repo rev-parse HEAD")[1].strip()
    if not os.path.exists(W + "/Cargo.toml") or sh("git rev-parse HEAD", cwd=W)[1].strip() != head:
        sh("git -C /repo worktree remove --force %s; rm -rf %s; git -C /repo worktree prune" % (W, W))
        rc, out = sh("git -C /repo worktree add -q --detach %s HEAD" % W)
        if rc != 0:
            print(out)
            return 3
    sh("cp /repo/Cargo.lock %s/" % W)
    env = dict(os.environ, CARGO_NET_OFFLINE="true")

    for m in sample:
        mid = hashlib.sha1(("%s:%d:%s" % (m["file"], m["line"], m["op"])).encode()).hexdigest()[:10]
        if mid in done:
            continue
        sh("git checkout -q -- .", cwd=W)
        path = os.path.join(W, m["file"])
        lines = open(path).read().split("\n")
        lines[m["line"] - 1] = m["new_full"]
        open(path, "w").write("\n".join(lines))
        rec = {"id": mid, "file": m["file"], "line": m["line"], "op": m["op"], "old": m["old"], "new": m["new"], "checks": {}}
        t0 = time.time()
        rc, out = sh("cargo build --offline --lib 2>&1", cwd=W, env=env, timeout=600)
        if rc != 0:
            rec["outcome"] = "uncompilable"
        else:
            rc, out = sh("cargo test --offline --lib 2>&1", cwd=W, env=env, timeout=900)
            if rc != 0:
                rec["outcome"] = "killed_by_unit_tests" if rc != 124 else "killed_by_unit_tests(timeout)"
            else:
                caught = None
                for prop in FILE_PROPS[m["file"]]:
                    e2 = dict(env, VERIF_REPO=W, VERIF_ONLY_CFGS=CFGS_FOR.get(prop, cfgs))
                    if os.environ.get("VERIF_HARNESS_SNAPSHOT"):
                        e2["VERIF_HARNESS_SNAPSHOT"] = os.environ["VERIF_HARNESS_SNAPSHOT"]
                    rc, out = sh("python3 %s/run_check.py %s --tier quick 2>&1" % (VERIF, prop), env=e2, timeout=3000)
                    sigs = sorted(set(re.findall(r'"sig": "([^"]+)"', " ".join(open(p).read() for p in re.findall(r"replay=(\S+)", out) if os.path.exists(p)))))
                    rec["checks"][prop] = {"exit": rc, "signatures": sigs[:6]}
                    if rc == 1:
                        caught = prop
                        break
                if caught:
                    rec["outcome"] = "caught"
                    rec["caught_by"] = caught
                else:
                    rc, out = sh("cargo test --offline --doc 2>&1", cwd=W, env=env, timeout=1800)
                    rec["outcome"] = "survivor" if rc == 0 else "killed_by_doc_tests"
                    if any(c["exit"] == 2 for c in rec["checks"].values()) and rec["outcome"] == "survivor":
                        rec["outcome"] = "survivor(inconclusive check)"
        rec["wall_s"] = round(time.time() - t0, 1)
        open(res_path, "a").write(json.dumps(rec) + "\n")
        print("%s %s:%d [%s] => %s %s" % (mid, m["file"], m["line"], m["op"], rec["outcome"], rec.get("caught_by", "")), flush=True)
    sh("git checkout -q -- .", cwd=W)
    summarize()
    return 0


def summarize():
    res_path = os.path.join(OUT, "results.jsonl")
    recs = [json.loads(l) for l in open(res_path)] if os.path.exists(res_path) else []
    counts = {}
    for r in recs:
        counts[r["outcome"]] = counts.get(r["outcome"], 0) + 1
    passed_suite = [r for r in recs if r["outcome"] in ("caught", "survivor", "survivor(inconclusive check)")]
    with open(os.path.join(OUT, "SUMMARY.md"), "w") as o:
        o.write("# Syntactic mutation sample\n\nProduced by `python3 mutate.py` (see its docstring). One operator replacement on one line of `/repo/src` per mutant, "
                "applied in a scratch worktree.\n\n")
        o.write("| outcome | mutants |\n|---|---|\n")
        for k in sorted(counts):
            o.write("| %s | %d |\n" % (k, counts[k]))
        caught = sum(1 for r in passed_suite if r["outcome"] == "caught")
        o.write("\nOf the %d mutants that compile and pass the crate's unit **and** doc tests or were caught before the doc tests were tried, the checks caught %d.\n\n" % (len(passed_suite), caught))
        by = {}
        for r in recs:
            if r["outcome"] == "caught":
                by[r["caught_by"]] = by.get(r["caught_by"], 0) + 1
        o.write("Caught by: " + ", ".join("%s %d" % (k, v) for k, v in sorted(by.items())) + "\n\n")
        o.write("## Survivors (pass the whole suite, no check reported a violation)\n\n")
        for r in recs:
            if r["outcome"].startswith("survivor"):
                o.write("* `%s:%d` `%s` → `%s` (%s; checks tried: %s)%s\n" % (r["file"], r["line"], r["old"], r["new"], r["outcome"], ", ".join("%s=%s" % (k, v["exit"]) for k, v in r["checks"].items()),
                                                                       (" — " + r["judgement"]) if r.get("judgement") else ""))
        o.write("\n## All mutants\n\n")
        for r in recs:
            o.write("* %s `%s:%d` `%s` → `%s`: %s %s\n" % (r["id"], r["file"], r["line"], r["old"][:90], r["new"][:90], r["outcome"], r.get("caught_by", "")))


if __name__ == "__main__":
    if "--summarize" in sys.argv:
        summarize()
    else:
        sys.exit(main())
