#!/usr/bin/env python3
"""C07, reader direction: produce files from logical content using only the rules of SERIALIZATION.md, with support
structures absent and writer-side choices varied (any sparse low width 1..64, minimal or wider RL sample width).

usage: encode_cases.py <dir> <seed> <count>
Writes r_<i>.bin / r_<i>.txt into <dir>; the Rust harness then loads each with the real loader and runs the query
monitors against a model built from the .txt.
"""

import os
import random
import sys

sys.path.insert(0, os.path.dirname(os.path.abspath(__file__)))
import sds_format as F  # noqa: E402


def write_case(d, i, data, lines):
    # Every third file holds the structure as the body of an optional structure (size element first), as a document-conformant
    # writer would store an optional member: kinds cycle with period 7, so every kind is wrapped and unwrapped in turn.
    if i % 3 == 1:
        data = F.enc_option(data)
        lines = lines + ["wrap option"]
    open(os.path.join(d, "r_%05d.bin" % i), "wb").write(data)
    open(os.path.join(d, "r_%05d.txt" % i), "w").write("\n".join(lines) + "\n")


def gen_bits(rng, n):
    mode = rng.randrange(6)
    if mode == 0:
        return []
    if mode == 1:
        return list(range(n))
    if mode == 2:
        p = 1.0 / 64
    elif mode == 3:
        p = 0.5
    elif mode == 4:
        p = 63.0 / 64
    else:
        # runs
        out = []
        i = 0
        val = rng.random() < 0.5
        while i < n:
            l = 1 + rng.randrange(40)
            if val:
                out.extend(range(i, min(n, i + l)))
            i += l
            val = not val
        return out
    return [i for i in range(n) if rng.random() < p]


def main():
    d, seed, count = sys.argv[1], int(sys.argv[2]), int(sys.argv[3])
    os.makedirs(d, exist_ok=True)
    rng = random.Random(seed * 7919 + 17)
    lengths = [0, 1, 2, 63, 64, 65, 127, 128, 129, 511, 512, 513, 4095, 4096, 4097]
    for i in range(count):
        kind = i % 9
        if kind == 0:  # raw vector
            n = rng.choice(lengths + [rng.randrange(3000)])
            ones = gen_bits(rng, n)
            big = 0
            for p in ones:
                big |= 1 << p
            write_case(d, i, F.enc_raw(n, big), ["type raw", "n %d" % n, "ones " + " ".join(map(str, ones))])
        elif kind == 1:  # integer vector
            width = 1 + (i // 9) % 64
            n = rng.choice([0, 1, 2, 7, 64 // width + 1, rng.randrange(300)])
            values = [rng.getrandbits(width) for _ in range(n)]
            write_case(d, i, F.enc_int(width, values), ["type int", "width %d" % width, "values " + " ".join(map(str, values))])
        elif kind == 2:  # plain bitvector, supports absent
            n = rng.choice(lengths + [rng.randrange(9000), 150000 + rng.randrange(100)])
            ones = gen_bits(rng, n)
            write_case(d, i, F.enc_bitvector(n, ones), ["type bitvector", "n %d" % n, "ones " + " ".join(map(str, ones))])
        elif kind == 3:  # sparse vector with an arbitrary admissible low width
            width = 1 + (i // 9) % 64
            m = rng.choice([0, 1, 2, 17, rng.randrange(200), rng.randrange(2000)])
            max_n = min((1 << 64) - 1, (1 << width) * 4096)
            n = rng.choice([rng.randrange(1, max_n + 1), max_n, min(max_n, 1 << width), min(max_n, (1 << width) + 1), max(1, min(max_n, (1 << width) - 1))])
            if rng.random() < 0.05:
                n = 0
            m = min(m, n)
            values = sorted(rng.sample(range(n), m)) if n <= 100000 else sorted(set(rng.randrange(n) for _ in range(m)))
            if values and rng.random() < 0.3:
                values[0] = 0
                values[-1] = n - 1
                values = sorted(set(values))
            multiset = False
            if values and rng.random() < 0.1:
                values = sorted(values + [rng.choice(values) for _ in range(3)])
                multiset = True
            write_case(d, i, F.enc_sparse(n, values, width), ["type sparse", "n %d" % n, "width %d" % width, "multiset %d" % int(multiset), "ones " + " ".join(map(str, values))])
        elif kind == 4:  # run-length vector
            nruns = rng.choice([0, 1, 2, 20, 300, rng.randrange(1500)])
            runs = []
            pos = 0
            big_runs = rng.random() < 0.3
            for k in range(nruns):
                gap = rng.choice([1, 2, 7, 8, 63, 64, rng.randrange(1, 1000), rng.randrange(1, 1 << 40) if big_runs else 3])
                if k == 0 and rng.random() < 0.5:
                    gap = 0
                ln = rng.choice([1, 2, 8, 9, 64, rng.randrange(1, 600), rng.randrange(1, 1 << 45) if big_runs else 5])
                runs.append((pos + gap, ln))
                pos += gap + ln
            n = pos + rng.choice([0, 1, 5, rng.randrange(10000)])
            sw = rng.choice([None, None, 64, 33])
            flat = " ".join("%d %d" % r for r in runs)
            write_case(d, i, F.enc_rl(n, runs, sw, pad_last=(rng.random() < 0.3)), ["type rl", "n %d" % n, "runs " + flat])
        elif kind == 5:  # wavelet matrix
            width = 1 + rng.randrange(10)
            n = rng.choice([0, 1, 2, 64, 65, rng.randrange(600)])
            symbols = [rng.getrandbits(width) for _ in range(1 + rng.randrange(12))] if rng.random() < 0.5 else None
            values = [(rng.choice(symbols) if symbols else rng.getrandbits(width)) for _ in range(n)]
            write_case(d, i, F.enc_wm(values), ["type wm", "values " + " ".join(map(str, values))])
        elif kind == 7:  # byte vector (every length class modulo 8, and lengths around typical buffer sizes)
            n = rng.choice([0, 1, 7, 8, 9, 15, 16, 17, rng.randrange(200), 4095, 4096, 4097, 8179, 16381])
            data = bytes(rng.randrange(1, 256) for _ in range(n))
            write_case(d, i, F.enc_bytes(data), ["type bytes", "hex " + data.hex()])
        elif kind == 8:  # string
            n = rng.choice([0, 1, 3, 7, 8, 9, 21, rng.randrange(120)])
            alphabet = "abcXYZ019 _-" if rng.random() < 0.5 else "a\u00e9\u00df\u6f22\U0001F600z"
            text = "".join(rng.choice(alphabet) for _ in range(n))
            write_case(d, i, F.enc_string(text), ["type string", "hex " + text.encode("utf-8").hex()])
        else:  # wavelet matrix core
            width = 1 + rng.randrange(8)
            n = rng.choice([1, 2, 64, rng.randrange(1, 400)])
            values = [rng.getrandbits(width) for _ in range(n)]
            w = F.bit_len(max(values))
            core, _ = F.enc_wm_core(values, w)
            write_case(d, i, core, ["type wmcore", "values " + " ".join(map(str, values))])
    import json
    res = {"prop": "C07", "cfg": "python", "part": "encode_cases", "shard": 0, "nshards": 1, "seed": seed, "tier": "quick", "budget": 0, "budget_hit": False,
           "evaluations": 0, "checks": 0, "distinct_local": 0, "digest_overflow": 0, "violations_total": 0, "samples": [], "violations": [],
           "counters": {"encoded.files": count}, "notes": {}, "inconclusive": []}
    print("VMON-DIGESTS ")
    print("VMON-RESULT " + json.dumps(res))


if __name__ == "__main__":
    main()
