"""Independent codec for the simple-sds serialization format, written from SERIALIZATION.md only.

Nothing here was derived from the Rust sources: it is the second implementation of the format that C07 needs.
Decoding functions raise FormatError when the bytes break a rule of the document.
"""

import struct


class FormatError(Exception):
    pass


def bit_len(x):
    return max(1, int(x).bit_length())


# ---------------------------------------------------------------------------------------------------------------
# Decoding


class Reader:
    def __init__(self, data):
        if len(data) % 8 != 0:
            raise FormatError("file size %d is not a multiple of 8 bytes" % len(data))
        self.data = data
        self.pos = 0  # in elements

    def elements(self):
        return len(self.data) // 8

    def elem(self):
        if (self.pos + 1) * 8 > len(self.data):
            raise FormatError("element %d is past the end of the file" % self.pos)
        (v,) = struct.unpack_from("<Q", self.data, self.pos * 8)
        self.pos += 1
        return v

    def elems(self, n):
        if (self.pos + n) * 8 > len(self.data):
            raise FormatError("%d elements at %d run past the end of the file" % (n, self.pos))
        v = struct.unpack_from("<%dQ" % n, self.data, self.pos * 8)
        self.pos += n
        return list(v)

    def at_end(self):
        return self.pos * 8 == len(self.data)

    # Vectors of serializable items.
    def vec_u64(self):
        n = self.elem()
        return self.elems(n)

    def vec_pair(self):
        n = self.elem()
        flat = self.elems(2 * n)
        return [(flat[2 * i], flat[2 * i + 1]) for i in range(n)]

    def byte_vec(self):
        n = self.elem()
        padded = (n + 7) // 8
        start = self.pos * 8
        if start + padded * 8 > len(self.data):
            raise FormatError("byte vector of length %d runs past the end" % n)
        raw = self.data[start:start + padded * 8]
        self.pos += padded
        if any(b != 0 for b in raw[n:]):
            raise FormatError("non-zero padding after a byte vector of length %d" % n)
        return bytes(raw[:n])

    def string(self):
        b = self.byte_vec()
        try:
            return b.decode("utf-8")
        except UnicodeDecodeError:
            raise FormatError("string is not valid UTF-8")

    def optional(self, inner):
        """Length element, then the structure if present. The length must land exactly on the next field."""
        size = self.elem()
        if size == 0:
            return None
        start = self.pos
        value = inner()
        if self.pos - start != size:
            raise FormatError("optional structure declares %d elements but its content takes %d" % (size, self.pos - start))
        return value

    def skip_optional(self):
        size = self.elem()
        if (self.pos + size) * 8 > len(self.data):
            raise FormatError("optional structure of %d elements runs past the end" % size)
        self.pos += size
        return size

    def raw_vector(self):
        """Returns (n, words)."""
        n = self.elem()
        words = self.vec_u64()
        if len(words) != (n + 63) // 64:
            raise FormatError("raw bitvector of length %d stored in %d elements, expected %d" % (n, len(words), (n + 63) // 64))
        if n % 64 != 0 and (words[-1] >> (n % 64)) != 0:
            raise FormatError("unused bits in the last element of a raw bitvector of length %d are not 0" % n)
        return n, words

    def int_vector(self):
        """Returns (width, values)."""
        n = self.elem()
        width = self.elem()
        if width < 1 or width > 64:
            raise FormatError("integer vector width %d is not in 1..64" % width)
        bits, words = self.raw_vector()
        if bits != n * width:
            raise FormatError("integer vector of %d items of width %d stored in a raw bitvector of length %d" % (n, width, bits))
        big = 0
        for i, w in enumerate(words):
            big |= w << (64 * i)
        mask = (1 << width) - 1
        return width, [(big >> (i * width)) & mask for i in range(n)]

    def bit_vector(self):
        """Returns (n, words as one big integer, [sizes of the three optional supports])."""
        ones = self.elem()
        n, words = self.raw_vector()
        big = 0
        for i, w in enumerate(words):
            big |= w << (64 * i)
        if bin(big).count("1") != ones:
            raise FormatError("bitvector declares %d set bits but stores %d" % (ones, bin(big).count("1")))
        supports = [self.skip_optional(), self.skip_optional(), self.skip_optional()]
        return n, big, supports


def positions_of(big):
    out = []
    i = 0
    while big:
        tz = (big & -big).bit_length() - 1
        i += tz
        out.append(i)
        big >>= tz + 1
        i += 1
    return out


def decode_sparse(r):
    """Returns (n, values, width). Checks the requirements of the document."""
    n = r.elem()
    hn, hbig, _ = r.bit_vector()
    width, low = r.int_vector()
    m = len(low)
    ones = positions_of(hbig)
    if len(ones) != m:
        raise FormatError("sparse: %d low parts but %d set bits in the high bitvector" % (m, len(ones)))
    zeros = hn - m
    buckets = (n + (1 << width) - 1) >> width
    if zeros != buckets:
        raise FormatError("sparse: %d buckets in the high bitvector, the universe 0..%d with width %d needs exactly %d" % (zeros, n, width, buckets))
    if hn > 0 and m > 0 and ones[-1] == hn - 1:
        raise FormatError("sparse: the high bitvector does not end with the 0 that closes the last bucket")
    values = [low[i] + ((ones[i] - i) << width) for i in range(m)]
    for i, v in enumerate(values):
        if v >= n:
            raise FormatError("sparse: value %d (item %d) is outside the universe 0..%d" % (v, i, n))
        if i > 0 and values[i - 1] > v:
            raise FormatError("sparse: values are not sorted at item %d" % i)
    return n, values, width


def code_units(value):
    units = 1
    while value > 7:
        value >>= 3
        units += 1
    return units


def decode_rl(r):
    """Returns (n, runs, info). Checks block structure, padding rules and samples."""
    n = r.elem()
    ones = r.elem()
    swidth, samples = r.int_vector()
    dwidth, data = r.int_vector()
    if dwidth != 4:
        raise FormatError("rl: code units have width %d, expected 4" % dwidth)
    if len(samples) % 2 != 0:
        raise FormatError("rl: odd number of sample values")
    blocks = (len(data) + 63) // 64
    if len(samples) // 2 != blocks:
        raise FormatError("rl: %d samples for %d blocks" % (len(samples) // 2, blocks))
    want_swidth = bit_len(max(samples)) if samples else 1
    if swidth != want_swidth:
        raise FormatError("rl: samples use width %d, the minimal width necessary is %d" % (swidth, want_swidth))
    runs = []
    pos = 0          # position after the last decoded run
    total_ones = 0
    paddings = []    # (block, padding units)
    first_unit_counts = []  # encoding length of the first run of each block
    for b in range(blocks):
        start = 64 * b
        end = min(len(data), start + 64)
        if (samples[2 * b], samples[2 * b + 1]) != (total_ones, pos):
            raise FormatError("rl: sample of block %d is (%d, %d), the preceding blocks encode (%d, %d)" % (b, samples[2 * b], samples[2 * b + 1], total_ones, pos))
        p = start
        first = True
        while p < end:
            # Padding: a gap of 0 is only legal for the very first run of the vector.
            if data[p] == 0 and not (b == 0 and p == 0):
                if any(u != 0 for u in data[p:end]):
                    raise FormatError("rl: block %d has a zero gap at unit %d that is not padding" % (b, p - start))
                if b == blocks - 1:
                    raise FormatError("rl: the final block contains %d units of padding" % (end - p))
                paddings.append((b, end - p))
                p = end
                break
            vals = []
            q = p
            for _ in range(2):
                v = 0
                shift = 0
                while True:
                    if q >= end:
                        raise FormatError("rl: a run crosses the end of block %d" % b)
                    u = data[q]
                    q += 1
                    v |= (u & 7) << shift
                    shift += 3
                    if u & 8 == 0:
                        break
                vals.append(v)
            gap, lenm1 = vals
            if gap == 0 and runs:
                raise FormatError("rl: run %d has gap 0 (runs must be maximal)" % len(runs))
            if first:
                first_unit_counts.append(q - p)
                first = False
            s = pos + gap
            runs.append((s, lenm1 + 1))
            pos = s + lenm1 + 1
            total_ones += lenm1 + 1
            p = q
        if b < blocks - 1 and end - start != 64:
            raise FormatError("rl: block %d is not full" % b)
    for (b, pad) in paddings:
        if b + 1 < len(first_unit_counts) and first_unit_counts[b + 1] <= pad:
            raise FormatError("rl: block %d is padded with %d units although the next run needs only %d" % (b, pad, first_unit_counts[b + 1]))
    if total_ones != ones:
        raise FormatError("rl: header says %d set bits, the runs have %d" % (ones, total_ones))
    if pos > n:
        raise FormatError("rl: runs end at %d, past the length %d" % (pos, n))
    return n, runs, {"blocks": blocks, "paddings": len(paddings), "sample_width": swidth}


def decode_wm_core(r):
    """Returns (width, [level bitvectors as big ints], length)."""
    width = r.elem()
    if width < 1 or width > 64:
        raise FormatError("wavelet matrix width %d is not in 1..64" % width)
    levels = []
    length = None
    for lv in range(width):
        n, big, _ = r.bit_vector()
        if length is None:
            length = n
        elif n != length:
            raise FormatError("wavelet matrix level %d has length %d, level 0 has %d" % (lv, n, length))
        levels.append(big)
    return width, levels, length


def wm_values(width, levels, length):
    """Recovers the items by the level-mapping rule of the document; also returns the final position of every item."""
    # Prefix counts per level for rank queries.
    ranks = []
    zeros = []
    for big in levels:
        pref = [0] * (length + 1)
        for i in range(length):
            pref[i + 1] = pref[i] + ((big >> i) & 1)
        ranks.append(pref)
        zeros.append(length - pref[length])
    values = []
    finals = []
    for i in range(length):
        idx = i
        v = 0
        for lv in range(width):
            bit = (levels[lv] >> idx) & 1
            if bit:
                v += 1 << (width - 1 - lv)
                idx = zeros[lv] + ranks[lv][idx]
            else:
                idx = idx - ranks[lv][idx]
        values.append(v)
        finals.append(idx)
    return values, finals


def decode_wm(r):
    length = r.elem()
    width, levels, clen = decode_wm_core(r)
    if clen != length:
        raise FormatError("wavelet matrix length %d but its core has length %d" % (length, clen))
    fwidth, first = r.int_vector()
    values, finals = wm_values(width, levels, length)
    if first:
        if fwidth != bit_len(max(first)):
            raise FormatError("wavelet matrix: `first` uses width %d, bit-packing to the minimum gives %d" % (fwidth, bit_len(max(first))))
    maxv = max(values) if values else 0
    if len(first) != maxv + 1:
        raise FormatError("wavelet matrix: `first` has %d entries, the alphabet 0..=%d has %d" % (len(first), maxv, maxv + 1))
    # first[v] = position of the first occurrence of v in the reordered vector, or len if absent.
    want = [length] * (maxv + 1)
    for v, f in zip(values, finals):
        if f < want[v]:
            want[v] = f
    if first != want:
        bad = [i for i in range(len(first)) if first[i] != want[i]][:5]
        raise FormatError("wavelet matrix: `first` is wrong for values %s" % bad)
    return length, width, values


# ---------------------------------------------------------------------------------------------------------------
# Encoding (support structures absent, writer-side choices left to the caller)


def enc_elem(v):
    return struct.pack("<Q", v & 0xFFFFFFFFFFFFFFFF)


def enc_option(body):
    """An optional structure: its size in elements (0 = absent), then the structure itself."""
    if body is None:
        return enc_elem(0)
    assert len(body) % 8 == 0
    return enc_elem(len(body) // 8) + body


def enc_bytes(b):
    """A byte vector: its length in bytes, the bytes, zero padding up to a multiple of 8."""
    return enc_elem(len(b)) + bytes(b) + bytes((-len(b)) % 8)


def enc_string(text):
    """A string: its UTF-8 bytes as a byte vector."""
    return enc_bytes(text.encode("utf-8"))


def enc_raw(n, big):
    words = (n + 63) // 64
    out = enc_elem(n) + enc_elem(words)
    for i in range(words):
        out += enc_elem((big >> (64 * i)) & 0xFFFFFFFFFFFFFFFF)
    return out


def enc_int(width, values):
    big = 0
    for i, v in enumerate(values):
        big |= (v & ((1 << width) - 1)) << (i * width)
    return enc_elem(len(values)) + enc_elem(width) + enc_raw(len(values) * width, big)


def enc_bitvector(n, positions):
    big = 0
    for p in positions:
        big |= 1 << p
    # Three optional support structures, all absent.
    return enc_elem(len(set(positions))) + enc_raw(n, big) + enc_elem(0) * 3


def enc_bitvector_big(n, big):
    return enc_elem(bin(big).count("1")) + enc_raw(n, big) + enc_elem(0) * 3


def enc_sparse(n, values, width):
    """Any width >= 1 is admissible for the writer."""
    buckets = (n + (1 << width) - 1) >> width
    m = len(values)
    big = 0
    for i, v in enumerate(values):
        big |= 1 << ((v >> width) + i)
    low = [v & ((1 << width) - 1) for v in values]
    return enc_elem(n) + enc_bitvector_big(m + buckets, big) + enc_int(width, low)


def enc_code(value):
    units = []
    while value > 7:
        units.append((value & 7) | 8)
        value >>= 3
    units.append(value)
    return units


def enc_rl(n, runs, sample_width=None, pad_last=False):
    data = []
    samples = []
    pos = 0
    ones = 0
    for (s, l) in runs:
        units = enc_code(s - pos) + enc_code(l - 1)
        block_count = len(samples) // 2
        if len(data) + len(units) > 64 * block_count:
            data += [0] * (64 * block_count - len(data))
            samples += [ones, pos]
        data += units
        pos = s + l
        ones += l
    if pad_last and data:
        # The document forbids padding in a final block that is NOT full; a writer may still emit a final block of exactly
        # 64 units whose tail is padding (a full block with padding, like every other block).
        data += [0] * (64 * (len(samples) // 2) - len(data))
    minimal = bit_len(max(samples)) if samples else 1
    width = minimal if sample_width is None else max(minimal, sample_width)
    return enc_elem(n) + enc_elem(ones) + enc_int(width, samples) + enc_int(4, data)


def enc_wm_core(values, width):
    out = enc_elem(width)
    cur = list(values)
    for lv in range(width):
        bitv = 1 << (width - 1 - lv)
        big = 0
        zeros_list = []
        ones_list = []
        for i, v in enumerate(cur):
            if v & bitv:
                big |= 1 << i
                ones_list.append(v)
            else:
                zeros_list.append(v)
        out += enc_bitvector_big(len(cur), big)
        cur = zeros_list + ones_list
    return out, cur


def enc_wm(values):
    maxv = max(values) if values else 0
    width = bit_len(maxv)
    core, reordered = enc_wm_core(values, width)
    first = [len(values)] * (maxv + 1)
    for p, v in enumerate(reordered):
        if p < first[v]:
            first[v] = p
    return enc_elem(len(values)) + core + enc_int(bit_len(max(first)), first)
