#!/usr/bin/env python3
"""C07, writer direction: decode bytes written by the library using only the rules of SERIALIZATION.md and compare with
the logical content recorded from the reference model (never from the library).

usage: check_written.py <dir> <shard> <nshards>
Prints one `VMON-RESULT {json}` line in the same shape as the Rust harness.
"""

import hashlib
import json
import os
import sys

sys.path.insert(0, os.path.dirname(os.path.abspath(__file__)))
from sds_format import FormatError, Reader, decode_rl, decode_sparse, decode_wm, decode_wm_core, positions_of, wm_values  # noqa: E402


def parse_content(path):
    c = {}
    for line in open(path):
        line = line.rstrip("\n")
        if not line:
            continue
        key, _, rest = line.partition(" ")
        c[key] = rest
    return c


def ints(s):
    return [int(x) for x in s.split()] if s else []


def check_case(binpath, content):
    """Returns a list of (sig, detail) violations."""
    data = open(binpath, "rb").read()
    t = content["type"]
    out = []
    try:
        r = Reader(data)
        # "option 1": the structure is the body of a present optional structure: one element with the size of the body
        # in elements first (SERIALIZATION.md, optional structures), then the body itself.
        wrapped = content.get("option") == "1"
        if wrapped:
            declared = r.elem()
            body_start = r.pos
        if t == "raw":
            n, words = r.raw_vector()
            big = 0
            for i, w in enumerate(words):
                big |= w << (64 * i)
            if n != int(content["n"]) or positions_of(big) != ints(content.get("ones", "")):
                out.append(("written.raw.content", "decoded raw vector differs from the model"))
        elif t == "int":
            width, values = r.int_vector()
            if width != int(content["width"]) or values != ints(content.get("values", "")):
                out.append(("written.int.content", "decoded integer vector (width %d, %d items) differs from the model (width %s)" % (width, len(values), content["width"])))
        elif t == "bitvector":
            n, big, supports = r.bit_vector()
            if n != int(content["n"]) or positions_of(big) != ints(content.get("ones", "")):
                out.append(("written.bitvector.content", "decoded bitvector differs from the model"))
            want = content.get("supports")
            if want is not None and [int(s > 0) for s in supports] != [int(x) for x in want.split()]:
                out.append(("written.bitvector.supports", "optional supports present %s, expected %s" % ([int(s > 0) for s in supports], want)))
        elif t == "sparse":
            n, values, width = decode_sparse(r)
            if n != int(content["n"]) or values != ints(content.get("ones", "")):
                out.append(("written.sparse.content", "decoded sparse vector (n=%d, %d values, width %d) differs from the model" % (n, len(values), width)))
        elif t == "rl":
            n, runs, info = decode_rl(r)
            flat = ints(content.get("runs", ""))
            want = [(flat[2 * i], flat[2 * i + 1]) for i in range(len(flat) // 2)]
            if n != int(content["n"]) or runs != want:
                out.append(("written.rl.content", "decoded run-length vector (n=%d, %d runs) differs from the model (%s, %d runs)" % (n, len(runs), content["n"], len(want))))
        elif t == "wm":
            length, width, values = decode_wm(r)
            if values != ints(content.get("values", "")):
                out.append(("written.wm.content", "decoded wavelet matrix (len %d width %d) differs from the model" % (length, width)))
        elif t == "wmcore":
            width, levels, length = decode_wm_core(r)
            values, _ = wm_values(width, levels, length)
            want = ints(content.get("values", ""))
            if values != want:
                out.append(("written.wmcore.content", "decoded core (len %d width %d) differs from the model" % (length, width)))
            if want and width < max(1, max(want).bit_length()):
                out.append(("written.wmcore.width", "core width %d cannot hold the largest item" % width))
        elif t == "bytes":
            b = r.byte_vec()
            if b.hex() != content.get("hex", ""):
                out.append(("written.bytes.content", "decoded byte vector differs from the model"))
        elif t == "string":
            s = r.string()
            if s.encode("utf-8").hex() != content.get("hex", ""):
                out.append(("written.string.content", "decoded string differs from the model"))
        elif t == "vec_u64":
            v = r.vec_u64()
            if v != ints(content.get("values", "")):
                out.append(("written.vec_u64.content", "decoded vector differs from the model"))
        elif t == "vec_pair":
            v = r.vec_pair()
            flat = ints(content.get("values", ""))
            if [x for p in v for x in p] != flat:
                out.append(("written.vec_pair.content", "decoded vector of pairs differs from the model"))
        elif t == "option_vec_u64":
            v = r.optional(r.vec_u64)
            want = None if content.get("none") == "1" else ints(content.get("values", ""))
            if v != want:
                out.append(("written.option.content", "decoded optional vector differs from the model"))
        else:
            out.append(("written.unknown_type", t))
        if wrapped and not out and r.pos - body_start != declared:
            out.append(("written.option.size", "optional %s declares %d elements but its body takes %d" % (t, declared, r.pos - body_start)))
        if not r.at_end() and not out:
            out.append(("written.%s.trailing" % t, "%d bytes are left after the structure" % (len(data) - r.pos * 8)))
    except FormatError as e:
        out.append(("written.%s.format" % t, str(e)))
    return out


def main():
    d, shard, nshards = sys.argv[1], int(sys.argv[2]), int(sys.argv[3])
    names = sorted(f[:-4] for f in os.listdir(d) if f.endswith(".txt") and f.startswith("w_"))
    evals = 0
    checks = 0
    digests = set()
    samples = []
    violations = []
    counters = {}
    for i, name in enumerate(names):
        if i % nshards != shard:
            continue
        content = parse_content(os.path.join(d, name + ".txt"))
        binpath = os.path.join(d, name + ".bin")
        v = check_case(binpath, content)
        evals += 1
        checks += 1
        counters["written." + content["type"]] = counters.get("written." + content["type"], 0) + 1
        digests.add(hashlib.sha1(open(binpath, "rb").read()).hexdigest()[:16])
        if len(samples) < 4:
            samples.append("written: %s %s (%d bytes) decoded by the document's rules and compared with the model" % (content["type"], name, os.path.getsize(binpath)))
        for sig, detail in v:
            if len(violations) < 30:
                violations.append({"sig": sig, "detail": "%s/%s: %s" % (d, name, detail)})
    res = {"prop": "C07", "cfg": "python", "part": "check_written", "shard": shard, "nshards": nshards, "seed": 0, "tier": "quick", "budget": 0, "budget_hit": False,
           "evaluations": evals, "checks": checks, "distinct_local": len(digests), "digest_overflow": 0, "violations_total": len(violations), "samples": samples,
           "violations": violations, "counters": counters, "notes": {}, "inconclusive": []}
    print("VMON-DIGESTS " + ",".join(sorted(digests)))
    print("VMON-RESULT " + json.dumps(res))


if __name__ == "__main__":
    main()
