#!/usr/bin/env python3
"""Confirms a seeded defect and runs checks against it.

usage: eval_mutant.py <mutant dir (patch.diff, demo.rs, NOTES.md)> <seeded id, e.g. C05-1> <property> [--cfgs rel,dbg] [--also C08,...] [--keep]

Steps (all in a scratch worktree of /repo under /tmp/ev, removed afterwards):
  1. demo on the clean tree must pass (debug and release);
  2. with patch.diff applied the existing suite (147 unit + 79 doc tests) must pass and the demo must fail (debug or release);
  3. the quick check of the property (and of any --also properties) is run with VERIF_REPO pointing at the scratch tree.
With --keep the mutant is stored under /verif/seeded/<id>/ (patch.diff, demo.rs, notes.md, meta.json).
"""
import json
import os
import re
import shutil
import subprocess
import sys
import time

VERIF = os.path.dirname(os.path.abspath(__file__))


def sh(cmd, cwd=None, env=None, timeout=3000):
    p = subprocess.run(cmd, shell=True, cwd=cwd, env=env, stdout=subprocess.PIPE, stderr=subprocess.STDOUT, text=True, timeout=timeout)
    return p.returncode, p.stdout


def results(out):
    return re.findall(r"test result: (\w+)\. (\d+) passed; (\d+) failed", out)


def main():
    mdir, sid, prop = sys.argv[1], sys.argv[2], sys.argv[3]
    cfgs = ""
    also = []
    keep = "--keep" in sys.argv
    rustflags = sys.argv[sys.argv.index("--rustflags") + 1] if "--rustflags" in sys.argv else ""
    if "--cfgs" in sys.argv:
        cfgs = sys.argv[sys.argv.index("--cfgs") + 1]
    if "--also" in sys.argv:
        also = sys.argv[sys.argv.index("--also") + 1].split(",")
    w = os.environ.get("VERIF_EV_DIR", "/tmp/ev/cur")  # fixed path: the per-configuration build caches are keyed on it and stay incremental
    # Reuse the scratch worktree (and its cargo target dir) between evaluations; recreate it if /repo moved on.
    head = sh("git -C /repo rev-parse HEAD")[1].strip()
    if os.path.isdir(w + "/.git") or os.path.isfile(w + "/.git"):
        sh("git checkout -q --detach %s && git checkout -q -- . && git clean -fdq -e target" % head, cwd=w)
    if not os.path.exists(w + "/Cargo.toml") or sh("git rev-parse HEAD", cwd=w)[1].strip() != head:
        sh("git -C /repo worktree remove --force %s; rm -rf %s; git -C /repo worktree prune" % (w, w))
        rc, out = sh("git -C /repo worktree add -q --detach %s HEAD" % w)
        if rc != 0:
            print(out)
            return 3
    shutil.copy("/repo/Cargo.lock", w)
    os.makedirs(w + "/tests", exist_ok=True)
    shutil.copy(mdir + "/demo.rs", w + "/tests/demo.rs")
    meta = {"id": sid, "property": prop, "base_commit": sh("git -C /repo rev-parse HEAD")[1].strip(), "ran": []}

    _, o1 = sh("cargo test --offline --test demo 2>&1", cwd=w)
    _, o2 = sh("cargo test --offline --release --test demo 2>&1", cwd=w)
    clean_ok = all(r[0] == "ok" for r in results(o1) + results(o2)) and results(o1) and results(o2)
    meta["demo_passes_on_clean_tree"] = bool(clean_ok)
    meta["ran"].append("cargo test --offline [--release] --test demo (clean tree): %s" % (results(o1) + results(o2)))

    rc, out = sh("git apply %s/patch.diff" % os.path.abspath(mdir), cwd=w)
    if rc != 0:
        print("PATCH DOES NOT APPLY\n" + out)
        return 4
    os.rename(w + "/tests/demo.rs", w + "/demo.rs.off")
    _, o3 = sh("cargo test --workspace --no-fail-fast --offline 2>&1", cwd=w)
    suite = results(o3)
    suite_ok = len(suite) >= 2 and all(r[0] == "ok" for r in suite) and int(suite[0][1]) == 147 and int(suite[-1][1]) == 79
    meta["existing_suite_passes_with_change"] = bool(suite_ok)
    meta["ran"].append("cargo test --workspace --no-fail-fast --offline (with change): %s" % suite)
    os.rename(w + "/demo.rs.off", w + "/tests/demo.rs")
    _, o4 = sh("cargo test --offline --test demo 2>&1", cwd=w)
    _, o5 = sh("cargo test --offline --release --test demo 2>&1", cwd=w)
    fails_dbg = any(r[0] != "ok" for r in results(o4)) or not results(o4)
    fails_rel = any(r[0] != "ok" for r in results(o5)) or not results(o5)
    meta["demo_fails_with_change"] = {"debug": bool(fails_dbg), "release": bool(fails_rel)}
    meta["ran"].append("cargo test --offline [--release] --test demo (with change): %s / %s" % (results(o4), results(o5)))
    fails_flags = False
    if rustflags:
        # Configuration-dependent defects: the demo is also run with the stated RUSTFLAGS (own target dir), clean and changed.
        fenv = dict(os.environ)
        fenv["RUSTFLAGS"] = rustflags
        fenv["CARGO_TARGET_DIR"] = w + "/target/flags"
        _, o6 = sh("cargo test --offline --test demo 2>&1", cwd=w, env=fenv)
        _, o7 = sh("cargo test --offline --release --test demo 2>&1", cwd=w, env=fenv)
        fails_flags = any(r[0] != "ok" for r in results(o6) + results(o7)) or not results(o6)
        sh("git stash -q", cwd=w)
        _, o8 = sh("cargo test --offline --test demo 2>&1; cargo test --offline --release --test demo 2>&1", cwd=w, env=fenv)
        sh("git stash pop -q", cwd=w)
        clean_flags_ok = bool(results(o8)) and all(r[0] == "ok" for r in results(o8))
        meta["demo_with_rustflags"] = {"rustflags": rustflags, "fails_with_change": bool(fails_flags), "passes_on_clean_tree": bool(clean_flags_ok), "results_with_change": results(o6) + results(o7)}
        meta["ran"].append("RUSTFLAGS='%s' cargo test --offline [--release] --test demo: with change %s, clean %s" % (rustflags, results(o6) + results(o7), results(o8)))
        fails_flags = fails_flags and clean_flags_ok
    confirmed = clean_ok and suite_ok and (fails_dbg or fails_rel or fails_flags)
    meta["confirmed"] = bool(confirmed)
    if os.path.exists(w + "/tests/demo.rs"):
        os.remove(w + "/tests/demo.rs")
    print("%s: clean demo ok=%s suite ok=%s demo fails dbg=%s rel=%s => confirmed=%s" % (sid, clean_ok, suite_ok, fails_dbg, fails_rel, confirmed))

    meta["checks"] = {}
    for p in [prop] + also:
        env = dict(os.environ)
        env["VERIF_REPO"] = w
        if cfgs:
            env["VERIF_ONLY_CFGS"] = cfgs
        t0 = time.time()
        rc, out = sh("python3 run_check.py %s --tier quick 2>&1" % p, cwd=VERIF, env=env, timeout=4000)
        sigs = sorted(set(re.findall(r"^  sig=(\S+)", out, re.M)))
        last = [l for l in out.splitlines() if re.match(r"^C\d+ quick", l)]
        inconclusive = [l for l in out.splitlines() if l.startswith("INCONCLUSIVE") or l.startswith("HARNESS-ERROR")]
        meta["checks"][p] = {"cmd": "VERIF_REPO=<scratch worktree with the change>%s python3 run_check.py %s --tier quick" % ((" VERIF_ONLY_CFGS=" + cfgs) if cfgs else "", p),
                             "exit": rc, "caught": rc == 1, "signatures": sigs[:12], "summary": last[-1] if last else "", "wall_s": round(time.time() - t0, 1), "notes": inconclusive[:3]}
        print("  check %s: exit %d caught=%s sigs=%s %s" % (p, rc, rc == 1, sigs[:6], inconclusive[:2]))
    sh("git checkout -q -- . && git clean -fdq -e target", cwd=w)
    if keep and confirmed:
        d = os.path.join(VERIF, "seeded", sid)
        os.makedirs(d, exist_ok=True)
        shutil.copy(mdir + "/patch.diff", d + "/patch.diff")
        shutil.copy(mdir + "/demo.rs", d + "/demo.rs")
        if os.path.exists(mdir + "/NOTES.md"):
            notes = open(mdir + "/NOTES.md").read()
            open(d + "/notes.md", "w").write(notes)
            m = re.search(r"(?is)(what (?:exactly )?is needed.*?|needs? to manifest.*?|## .*manifest.*?)\n(.*?)(\n## |\Z)", notes)
            meta["needs_to_manifest"] = (m.group(2).strip()[:1200] if m else notes[:1200])
        json.dump(meta, open(d + "/meta.json", "w"), indent=1)
        print("  kept as %s" % d)
    return 0


if __name__ == "__main__":
    sys.exit(main())
