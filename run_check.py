#!/usr/bin/env python3
"""Driver for the runtime monitors in /verif (see DESIGN.md).

  run_check.py <ID> [--tier quick|thorough] [--seed N]      run the check of one property
  run_check.py --replay <path>                              re-execute one recorded witness case
  run_check.py --setup                                      build every configuration once

Environment: VERIF_SEED, VERIF_TIER (overridden by the flags), VERIF_REPO (default /repo), VERIF_JOBS (default 16).

Exit status: 0 = held on everything explored (KNOWN-FINDING lines may be printed); 1 = at least one unlisted violation
(`VIOLATION property=<id> replay=<path>` lines); 2 = inconclusive or harness error (never a VIOLATION line).
"""

import concurrent.futures
import hashlib
import json
import os
import re
import shutil
import signal
import subprocess
import sys
import time

VERIF = os.path.dirname(os.path.abspath(__file__))
REPO = os.environ.get("VERIF_REPO", "/repo")
CACHE = os.path.join(VERIF, ".cache")
JOBS = int(os.environ.get("VERIF_JOBS", "16"))
# VERIF_HARNESS_SNAPSHOT: evaluation of seeded defects against a frozen copy of the harness sources (so that the harness
# can be edited while a long evaluation runs); never set by a registered command.
HARNESS_SRC = os.path.join(os.environ.get("VERIF_HARNESS_SNAPSHOT") or os.path.join(VERIF, "harness"), "src", "main.rs")

sys.path.insert(0, VERIF)
import plans  # noqa: E402

# ----------------------------------------------------------------------------------------------------------------
# Build configurations.

SANCOV = ("-Cpasses=sancov-module -Cllvm-args=-sanitizer-coverage-level=4 -Cllvm-args=-sanitizer-coverage-inline-8bit-counters "
          "-Cllvm-args=-sanitizer-coverage-pc-table -Cllvm-args=-sanitizer-coverage-trace-compares --cfg fuzzing")

CONFIGS = {
    # tag: (toolchain, rustflags, profile, features, extra cargo args, runner)
    "dbg": ("", "-C target-cpu=native", "dev", ["probes"], [], "native"),
    "rel": ("", "-C target-cpu=native", "release", ["probes"], [], "native"),
    "rel-nobmi": ("", "-C target-cpu=x86-64", "release", ["probes"], [], "native"),
    "dbg-nobmi": ("", "-C target-cpu=x86-64", "dev", ["probes"], [], "native"),
    "bounds": ("", "-C target-cpu=native", "release", ["probes", "bounds"], [], "native"),
    "asan": ("+nightly", "-Zsanitizer=address -Cforce-frame-pointers=yes -C target-cpu=native", "release", ["probes"],
             ["--target", "x86_64-unknown-linux-gnu"], "native"),
    "tsan": ("+nightly", "-Zsanitizer=thread -C target-cpu=native", "release", ["probes"],
             ["-Zbuild-std", "--target", "x86_64-unknown-linux-gnu"], "native"),
    "valgrind": ("", "-C target-cpu=x86-64", "release", ["probes"], [], "valgrind"),
    "miri": ("+nightly", "", "dev", ["probes"], [], "miri"),
    "miri-wrap": ("+nightly", "", "dev", ["probes"], ["--config", "profile.dev.overflow-checks=false"], "miri"),
    "miri-native": ("+nightly", "-C target-cpu=native", "dev", ["probes"], [], "miri"),
    # Coverage-guided leg: the same drivers and oracles, decisions drawn from libFuzzer's mutated bytes (harness/src/fuzz.rs),
    # AddressSanitizer, release arithmetic. `fuzz-dbg` is the same with overflow checks and debug assertions instead of ASan.
    "fuzz": ("+nightly", SANCOV + " -Zsanitizer=address -Cforce-frame-pointers=yes -C target-cpu=native", "release", ["probes"],
             ["--target", "x86_64-unknown-linux-gnu"], "fuzz"),
    "fuzz-dbg": ("+nightly", SANCOV + " -Coverflow-checks=on -Cdebug-assertions=on -C target-cpu=native", "release", ["probes"],
                 ["--target", "x86_64-unknown-linux-gnu"], "fuzz"),
    # Not used by any registered check: source-coverage measurement of the workloads (coverage.py).
    "cov": ("+nightly", "-Cinstrument-coverage -C target-cpu=native", "release", ["probes"], [], "native"),
}


def repo_key():
    return hashlib.sha1(os.path.abspath(REPO).encode()).hexdigest()[:8]


def ws_dir(cfg):
    base = cfg if cfg not in ("valgrind",) else "valgrind"
    return os.path.join(CACHE, "ws", "%s-%s" % (base, repo_key()))


def env_for(cfg):
    env = dict(os.environ)
    env["CARGO_NET_OFFLINE"] = "true"
    toolchain, rustflags, profile, features, extra, runner = CONFIGS[cfg]
    if rustflags:
        env["RUSTFLAGS"] = rustflags
    else:
        env.pop("RUSTFLAGS", None)
    env["CARGO_TARGET_DIR"] = os.path.join(ws_dir(cfg), "target")
    tmp = os.path.join(CACHE, "tmp")
    os.makedirs(tmp, exist_ok=True)
    env["TMPDIR"] = tmp
    if runner == "miri":
        env["MIRIFLAGS"] = "-Zmiri-disable-isolation -Zmiri-permissive-provenance"
    if cfg in ("asan", "fuzz"):
        env["ASAN_OPTIONS"] = "detect_leaks=1:abort_on_error=0:halt_on_error=1:exitcode=77:symbolize=1"
        sym = shutil.which("llvm-symbolizer") or shutil.which("llvm-symbolizer-14")
        if sym:
            env["ASAN_SYMBOLIZER_PATH"] = sym
    if cfg == "tsan":
        env["TSAN_OPTIONS"] = "halt_on_error=1:exitcode=66"
    if cfg == "cov":
        os.makedirs(os.path.join(CACHE, "cov"), exist_ok=True)
        env["LLVM_PROFILE_FILE"] = os.path.join(CACHE, "cov", "vmon-%p-%8m.profraw")
    return env


def write_manifest(cfg):
    toolchain, rustflags, profile, features, extra, runner = CONFIGS[cfg]
    d = ws_dir(cfg)
    os.makedirs(d, exist_ok=True)
    src = HARNESS_SRC
    fuzzdep = ""
    if runner == "fuzz":
        src = os.path.join(os.path.dirname(HARNESS_SRC), "fuzz.rs")
        fuzzdep = 'libfuzzer-sys = "0.4"\n'
    manifest = """[package]
name = "vmon"
version = "0.1.0"
edition = "2021"

[[bin]]
name = "vmon"
path = "%s"

[dependencies]
simple-sds = { path = "%s" }
libc = "0.2"
%s
[features]
probes = ["simple-sds/verif-probes"]
bounds = ["simple-sds/verif-bounds"]

[profile.dev]
opt-level = 1
overflow-checks = true
debug = 1

[profile.release]
overflow-checks = false
debug-assertions = false
debug = 1

[workspace]
""" % (src, os.path.abspath(REPO), fuzzdep)
    path = os.path.join(d, "Cargo.toml")
    old = None
    if os.path.exists(path):
        old = open(path).read()
    if old != manifest:
        open(path, "w").write(manifest)
    lock = os.path.join(d, "Cargo.lock")
    if not os.path.exists(lock):
        src = os.path.join(REPO, "Cargo.lock")
        if os.path.exists(src):
            shutil.copy(src, lock)
    return path


_built = {}


def build(cfg):
    """Builds the harness for one configuration from REPO's current working tree. Returns the command prefix."""
    if cfg in _built:
        return _built[cfg]
    toolchain, rustflags, profile, features, extra, runner = CONFIGS[cfg]
    manifest = write_manifest(cfg)
    env = env_for(cfg)
    feat = ["--features", ",".join(features)] if features else []
    prof = ["--release"] if profile == "release" else []
    t0 = time.time()
    if runner == "miri":
        cmd = ["cargo"] + ([toolchain] if toolchain else []) + ["miri", "run", "--offline", "--manifest-path", manifest] + feat + extra
        # Warm-up run: builds the sysroot and the harness; `selftest` does nothing but the model self-test.
        p = subprocess.run(cmd + ["--", "selftest"], env=env, stdout=subprocess.PIPE, stderr=subprocess.STDOUT, text=True)
        if p.returncode != 0 or "VMON-RESULT" not in p.stdout:
            sys.stdout.write(p.stdout[-4000:])
            raise SystemExit(harness_error("miri build/warm-up failed for %s" % cfg))
        prefix = cmd + ["-q", "--"]
    else:
        cmd = ["cargo"] + ([toolchain] if toolchain else []) + ["build", "--offline", "--manifest-path", manifest] + prof + feat + extra
        p = subprocess.run(cmd, env=env, stdout=subprocess.PIPE, stderr=subprocess.STDOUT, text=True)
        if p.returncode != 0:
            sys.stdout.write(p.stdout[-6000:])
            raise SystemExit(harness_error("build failed for %s" % cfg))
        tdir = env["CARGO_TARGET_DIR"]
        sub = "release" if profile == "release" else "debug"
        if "--target" in extra:
            binary = os.path.join(tdir, "x86_64-unknown-linux-gnu", sub, "vmon")
        else:
            binary = os.path.join(tdir, sub, "vmon")
        if runner == "valgrind":
            prefix = ["valgrind", "-q", "--error-exitcode=99", "--leak-check=no", "--track-origins=no", binary]
        else:
            prefix = [binary]
    _built[cfg] = prefix
    log("built %s in %.1fs" % (cfg, time.time() - t0))
    return prefix


def log(msg):
    sys.stderr.write("[run_check] %s\n" % msg)
    sys.stderr.flush()


def harness_error(msg):
    print("HARNESS-ERROR %s" % msg)
    return 2


# ----------------------------------------------------------------------------------------------------------------
# Running shards.

def run_shard(job):
    cfg, args, timeout = job["cfg"], job["args"], job["timeout"]
    if job.get("python"):
        prefix = [sys.executable, os.path.join(VERIF, job["python"])]
        env = dict(os.environ)
    else:
        prefix = build(cfg)
        env = env_for(cfg)
    extra_env = dict(job.get("env", {}))
    if job.get("fuzz_dir"):
        shutil.rmtree(job["fuzz_dir"], ignore_errors=True)
        os.makedirs(os.path.join(job["fuzz_dir"], "artifacts"))
        os.makedirs(os.path.join(job["fuzz_dir"], "corpus"))
    if "MIRIFLAGS_EXTRA" in extra_env:
        # One scheduler seed per shard, so that shards explore different schedules.
        env["MIRIFLAGS"] = env.get("MIRIFLAGS", "") + " " + extra_env.pop("MIRIFLAGS_EXTRA") + " -Zmiri-seed=%d" % (job["shard"] + 1000 * job.get("seed", 0))
    env.update(extra_env)
    cmd = prefix + args
    t0 = time.time()
    try:
        p = subprocess.run(cmd, env=env, stdout=subprocess.PIPE, stderr=subprocess.PIPE, timeout=timeout)
        out = p.stdout.decode("utf-8", "replace")
        err = p.stderr.decode("utf-8", "replace")
        rc = p.returncode
        timed_out = False
    except subprocess.TimeoutExpired as e:
        out = (e.stdout or b"").decode("utf-8", "replace")
        err = (e.stderr or b"").decode("utf-8", "replace")
        rc = None
        timed_out = True
    res = {"job": job, "rc": rc, "timed_out": timed_out, "wall": time.time() - t0, "stderr_tail": (err if len(err) <= 9000 else err[:3000] + "\n[...]\n" + err[-6000:]), "result": None, "digests": []}
    for line in out.splitlines():
        if line.startswith("VMON-RESULT "):
            try:
                res["result"] = json.loads(line[len("VMON-RESULT "):])
            except Exception as ex:  # malformed JSON is a harness error
                res["parse_error"] = str(ex)
        elif line.startswith("VMON-DIGESTS "):
            body = line[len("VMON-DIGESTS "):].strip()
            res["digests"] = body.split(",") if body else []
        elif line.startswith("VMON-HARNESS-ERROR"):
            res["harness_error"] = line
    res["stdout_tail"] = out[-2000:] if res["result"] is None else ""
    if job.get("fuzz_dir") or job.get("fuzz_replay"):
        # What the fuzzer did (libFuzzer's final statistics and last status line), and whatever it stored as a crash artifact.
        st = {}
        for k, v in re.findall(r"^stat::(\w+):\s+(\d+)", err, re.M):
            st[k] = int(v)
        m = re.findall(r"cov: (\d+) ft: (\d+) corp: (\d+)", err)
        if m:
            st["cov_edges"], st["features"], st["corpus"] = (int(x) for x in m[-1])
        res["fuzz_stats"] = st
        res["fuzz_violations"] = []
        for line in err.splitlines():
            if line.startswith("VMON-FUZZ-VIOLATION "):
                try:
                    res["fuzz_violations"].append(json.loads(line[len("VMON-FUZZ-VIOLATION "):]))
                except Exception:
                    pass
        arts = sorted(os.listdir(os.path.join(job["fuzz_dir"], "artifacts"))) if job.get("fuzz_dir") else []
        # slow-unit-* files are notes about slow inputs, not failures.
        arts = [a for a in arts if not a.startswith("slow-unit-")]
        res["fuzz_artifacts"] = [os.path.join(job["fuzz_dir"], "artifacts", a) for a in arts]
        res["fuzz_kind"] = "timeout" if any(a.startswith("timeout-") for a in arts) else ("oom" if any(a.startswith("oom-") for a in arts) else ("crash" if arts else ""))
        if "VMON-FUZZ-HARNESS-PANIC" in err:
            res["harness_error"] = [l for l in err.splitlines() if l.startswith("VMON-FUZZ-HARNESS-PANIC")][0]
        if not arts and job.get("fuzz_dir"):
            shutil.rmtree(job["fuzz_dir"], ignore_errors=True)
    return res


def work_dir(prop, tier, seed):
    return os.path.join(CACHE, "work", "%s-%s-%d-%s" % (prop, tier, seed, repo_key()))


def jobs_for(prop, tier, seed, only_leg=None):
    plan = plans.PLANS[prop]
    legs = plan["legs"][tier]
    jobs = []
    tmp = os.path.join(CACHE, "tmp")
    only_cfgs = [c for c in os.environ.get("VERIF_ONLY_CFGS", "").split(",") if c]
    if only_cfgs == ["cov"]:
        # Coverage measurement: the `rel` legs of the plan, built with source-coverage instrumentation.
        legs = [dict(l, cfg="cov") if l["cfg"] == "rel" else l for l in legs]
    for li, leg in enumerate(legs):
        if only_leg is not None and li != only_leg:
            continue
        if only_cfgs and leg["cfg"] not in only_cfgs and not leg.get("python"):
            continue
        if only_cfgs == ["cov"] and leg["cfg"] != "cov" and not leg.get("python"):
            continue
        n = leg.get("shards", 1)
        of = leg.get("of", n)
        for s in range(n):
            args = [leg.get("driver", plan["driver"]), "tier=%s" % tier, "seed=%d" % seed, "shard=%d" % s, "nshards=%d" % of, "cfg=%s" % leg["cfg"], "tmp=%s" % tmp]
            if leg.get("budget"):
                args.append("budget=%d" % leg["budget"])
            if leg.get("dir"):
                args.append("dir=%s" % work_dir(prop, tier, seed))
            if leg.get("part"):
                args.append("part=%s" % leg["part"])
            if leg.get("scale"):
                args.append("scale=%d" % leg["scale"])
            if CONFIGS.get(leg["cfg"], ("",) * 6)[5] == "fuzz":
                # Coverage-guided leg: libFuzzer owns argv, the workload is selected through the environment. A fixed number of
                # executions from a fixed seed and an empty corpus, one process per shard: what a shard executes is a function of
                # (binary, seed, shard) only.
                fdir = os.path.join(CACHE, "work", "fuzz-%s-%s-%d-%s-%d-%d" % (prop, tier, seed, repo_key(), li, s))
                args = ["-runs=%d" % leg.get("runs", 20000), "-seed=%d" % (1 + seed * 1000 + s), "-max_len=%d" % leg.get("maxlen", 2048), "-len_control=0",
                        "-timeout=120", "-report_slow_units=120", "-rss_limit_mb=8000", "-print_final_stats=1", "-verbosity=0", "-artifact_prefix=%s/" % os.path.join(fdir, "artifacts"), os.path.join(fdir, "corpus")]
                fenv = {"VMON_FUZZ_DRIVER": leg.get("driver", plan["driver"]), "VMON_FUZZ_PART": leg.get("part", ""), "VMON_FUZZ_TIER": tier, "VMON_FUZZ_SEED": str(seed),
                        "VMON_FUZZ_SHARD": str(s), "VMON_FUZZ_TMP": tmp, "VMON_FUZZ_CFG": leg["cfg"]}
                jobs.append({"cfg": leg["cfg"], "args": args, "leg": li, "shard": s, "stage": leg.get("stage", 0), "python": None, "only_crash": False, "driver": "", "part": leg.get("part", ""),
                             "timeout": leg.get("timeout", 900 if tier == "quick" else 5400), "env": dict(leg.get("env", {}), **fenv), "weight": leg.get("weight", 1), "seed": seed, "fuzz_dir": fdir})
                continue
            if leg.get("python"):
                # A Python stage of the pipeline (the independent format codec); prints the same VMON-RESULT line.
                args = [a.format(dir=work_dir(prop, tier, seed), shard=s, nshards=of, seed=seed) for a in leg["pyargs"]]
            jobs.append({"cfg": leg["cfg"], "args": args, "leg": li, "shard": s, "stage": leg.get("stage", 0), "python": leg.get("python"), "only_crash": bool(leg.get("driver")), "driver": leg.get("driver", ""), "part": leg.get("part", ""), "timeout": leg.get("timeout", 900 if tier == "quick" else 5400),
                         "env": leg.get("env", {}), "weight": leg.get("weight", 1), "seed": seed})
    return jobs


# ----------------------------------------------------------------------------------------------------------------
# Known findings.

def load_known():
    findings = []
    path = os.path.join(VERIF, "KNOWN_FINDINGS.txt")
    if os.path.exists(path):
        for line in open(path):
            line = line.strip()
            m = re.match(r"^finding:\s+property=(\S+)\s+sig=(\S+)\s+(.*)$", line)
            if m:
                findings.append({"property": m.group(1), "sig": m.group(2), "desc": m.group(3)})
    return findings


def classify_crash(res):
    """Turns an abnormal process end into a violation signature, or None if it is not evidence about the library."""
    rc = res["rc"]
    err = res["stderr_tail"]
    cfg = res["job"]["cfg"]
    if res["timed_out"] or res["job"].get("python"):
        return None
    if "fuzz_kind" in res:
        # Coverage-guided leg: libFuzzer turns every abnormal end into exit code 77 (70: one input ran too long, 71: memory limit).
        if res["fuzz_kind"] in ("timeout", "oom") or rc in (70, 71):
            return None
        if "ERROR: AddressSanitizer" in err:
            m = re.search(r"ERROR: AddressSanitizer: (\S+)", err)
            return "sanitizer.asan.%s" % (m.group(1) if m else "report")
        if res.get("fuzz_violations") or (res.get("result") and res["result"].get("violations")):
            return None  # a monitor violation, reported through the result line
        if "ERROR: LeakSanitizer" in err:
            return "sanitizer.lsan.leak"
        if "ERROR: libFuzzer: deadly signal" in err or res["fuzz_kind"] == "crash":
            return "signal.fuzz_deadly_signal"
        return None
    if "ERROR: AddressSanitizer" in err:
        m = re.search(r"ERROR: AddressSanitizer: (\S+)", err)
        return "sanitizer.asan.%s" % (m.group(1) if m else "report")
    if "ERROR: LeakSanitizer" in err:
        return "sanitizer.lsan.leak"
    if cfg == "asan" and rc == 77:
        return "sanitizer.asan.report"  # the exit code set in ASAN_OPTIONS; the head of a very long report may have been cut
    if "WARNING: ThreadSanitizer" in err:
        return "sanitizer.tsan.report"
    if "Undefined Behavior" in err and CONFIGS[cfg][5] == "miri":
        return "miri.undefined_behavior"
    if CONFIGS[cfg][5] == "miri" and ("error: memory leaked" in err or "error: unsupported operation" in err):
        if "memory leaked" in err:
            return "miri.leak"
        return None
    if CONFIGS[cfg][5] == "valgrind" and rc == 99:
        return "valgrind.memcheck"
    if rc is not None and rc in (-9, -15):
        return None  # killed from outside (watchdog, operator, OOM killer): not evidence about the library
    if rc is not None and rc < 0:
        return "signal.%s" % signal.Signals(-rc).name
    if rc in (134, 139, 132, 135, 136):
        return "signal.exit%d" % rc
    return None


# ----------------------------------------------------------------------------------------------------------------

def run_property(prop, tier, seed):
    t0 = time.time()
    plan = plans.PLANS[prop]
    jobs = jobs_for(prop, tier, seed)
    cfgs = sorted(set(j["cfg"] for j in jobs if not j.get("python")))
    # Builds in sequence (cargo serialises on the package cache anyway); shards in parallel.
    for c in cfgs:
        build(c)
    if plan.get("work_dir"):
        wd = work_dir(prop, tier, seed)
        shutil.rmtree(wd, ignore_errors=True)
        os.makedirs(wd, exist_ok=True)
    results = []
    for stage in sorted(set(j["stage"] for j in jobs)):
        batch = [j for j in jobs if j["stage"] == stage]
        with concurrent.futures.ThreadPoolExecutor(max_workers=JOBS) as ex:
            for r in ex.map(run_shard, sorted(batch, key=lambda j: -j["weight"])):
                results.append(r)
    if plan.get("work_dir"):
        shutil.rmtree(work_dir(prop, tier, seed), ignore_errors=True)

    fuzz_artifacts = {id(r["job"]): r.get("fuzz_artifacts") for r in results if r.get("fuzz_artifacts")}
    evals = 0
    checks = 0
    digests = set()
    digest_overflow = 0
    samples = []
    counters = {}
    notes = {}
    probes = {}
    sets = {}
    violations = []   # (sig, detail, job)
    inconclusive = []
    harness_errors = []
    legs_info = {}
    builds = {}
    oob = 0
    for r in results:
        job = r["job"]
        key = "%d:%s%s" % (job["leg"], job["cfg"], (":" + [a for a in job["args"] if a.startswith("part=")][0][5:]) if any(a.startswith("part=") for a in job["args"]) else "")
        info = legs_info.setdefault(key, {"cfg": job["cfg"], "shards": 0, "evaluations": 0, "checks": 0, "wall_s": 0.0, "reports": 0})
        info["shards"] += 1
        info["wall_s"] = round(max(info["wall_s"], r["wall"]), 1)
        res = r["result"]
        if r.get("harness_error") or r.get("parse_error"):
            harness_errors.append("%s shard %d: %s" % (job["cfg"], job["shard"], r.get("harness_error") or r.get("parse_error")))
            continue
        crash = classify_crash(r)
        if crash:
            info["reports"] += 1
            violations.append((crash + "." + job["cfg"], "process ended abnormally (rc=%s) in %s\n%s" % (r["rc"], " ".join(job["args"]), r["stderr_tail"][-3000:]), job))
        if res is None and not crash and r.get("fuzz_violations"):
            for v in r["fuzz_violations"]:
                violations.append((v["sig"], v["detail"], job))
            continue
        if res is None:
            if r.get("fuzz_kind") in ("timeout", "oom") or (r.get("fuzz_kind") is not None and r["rc"] in (70, 71)):
                inconclusive.append("%s shard %d: the fuzzer stopped on one input that %s (%s)" % (job["cfg"], job["shard"], "ran longer than its time limit" if r.get("fuzz_kind") == "timeout" or r["rc"] == 70 else "exceeded its memory limit", ", ".join(r.get("fuzz_artifacts", [])[:1])))
            elif r["timed_out"]:
                inconclusive.append("watchdog fired after %ds in %s shard %d" % (job["timeout"], job["cfg"], job["shard"]))
            elif r["rc"] in (-9, -15):
                inconclusive.append("%s shard %d was killed from outside (rc=%s)" % (job["cfg"], job["shard"], r["rc"]))
            elif not crash:
                harness_errors.append("%s shard %d: no result (rc=%s) stderr: %s stdout: %s" % (job["cfg"], job["shard"], r["rc"], r["stderr_tail"][-1500:], r["stdout_tail"]))
            continue
        for k, v in (r.get("fuzz_stats") or {}).items():
            ck = "fuzz.libfuzzer.%s" % k
            if k in ("cov_edges", "features", "corpus", "peak_rss_mb"):
                counters[ck] = max(counters.get(ck, 0), v)
            else:
                counters[ck] = counters.get(ck, 0) + v
        evals += res["evaluations"]
        checks += res["checks"]
        info["evaluations"] += res["evaluations"]
        info["checks"] += res["checks"]
        digest_overflow += res["digest_overflow"]
        digests.update(r["digests"])
        for s in res["samples"]:
            if len(samples) < 8 and s not in samples:
                samples.append(s)
        for k, v in res["counters"].items():
            if k.startswith("max:"):
                # Per-process measurements that must not be summed over shards (e.g. distinct methods covered).
                counters[k[4:]] = max(counters.get(k[4:], 0), v)
                continue
            counters[k] = counters.get(k, 0) + v
            ck = "%s/%s" % (job["cfg"], k)
            counters[ck] = counters.get(ck, 0) + v
        for k, v in res["notes"].items():
            notes.setdefault(k, v)
        for k, v in res.get("probes", {}).items():
            probes[k] = probes.get(k, 0) + v
        for k, v in res.get("sets", {}).items():
            sets[k] = sorted(set(sets.get(k, [])) | set(v))
        oob += res.get("oob_count", 0)
        builds[job["cfg"]] = res.get("build", {})
        if not job.get("only_crash"):
            # Legs that replay another property's workload under a sanitizer contribute process-level verdicts only.
            for v in res["violations"]:
                violations.append((v["sig"], v["detail"], job))
        elif res.get("oob_count", 0) > 0:
            # ... which includes the bounds hooks: an unchecked accessor reached with an out-of-range index.
            violations.append(("bounds_hook.replay.%s" % job.get("driver", "?"), "the bounds hooks fired %d time(s) while the %s workload (part %r, shard %d) ran through the safe API; first monitor complaint of that shard: %s"
                               % (res["oob_count"], job.get("driver", "?"), job.get("part", ""), job["shard"], "; ".join(v["detail"][:200] for v in res["violations"][:1]) or "n/a"), job))
        for i in res["inconclusive"]:
            inconclusive.append("%s shard %d: %s" % (job["cfg"], job["shard"], i))

    # Required regimes: a run that never reached one is inconclusive, not a pass.
    for req in ([] if os.environ.get("VERIF_ONLY_CFGS") else plan.get("require", {}).get(tier, [])):
        ok = plans.requirement_met(req, counters, probes, sets, builds)
        if not ok:
            inconclusive.append("required regime not reached: %s" % (req,))

    # Known findings.
    known = [k for k in load_known() if k["property"] == prop]
    known_hits = {}
    unlisted = []
    for sig, detail, job in violations:
        hit = [k for k in known if k["sig"] == sig]
        if hit:
            known_hits.setdefault(sig, (hit[0], detail))
        else:
            unlisted.append((sig, detail, job))

    # Replay files for unlisted violations.
    replay_paths = []
    if unlisted:
        rdir = os.path.join(VERIF, "replays", prop) if os.path.abspath(REPO) == "/repo" else os.path.join(CACHE, "replays-scratch", repo_key(), prop)
        os.makedirs(rdir, exist_ok=True)
        seen = set()
        for i, (sig, detail, job) in enumerate(unlisted):
            if sig in seen and len(replay_paths) >= 5:
                continue
            seen.add(sig)
            if len(replay_paths) >= 12:
                break
            m = re.match(r"case#(\d+) ", detail)
            path = os.path.join(rdir, "%d-%d.case" % (seed, len(replay_paths)))
            rec = {"property": prop, "sig": sig, "detail": detail, "cfg": job["cfg"], "args": job["args"], "case": int(m.group(1)) if m else None,
                   "repo": os.path.abspath(REPO)}
            if job.get("fuzz_dir"):
                # The input that libFuzzer stored is the witness: keep it next to the case file and drop the work directory.
                arts = [a for a in (fuzz_artifacts.get(id(job)) or []) if os.path.exists(a)]
                if arts:
                    shutil.copy(arts[0], path + ".input")
                    rec["fuzz_input"] = path + ".input"
                rec["env"] = job["env"]
                rec["case"] = None
            json.dump(rec, open(path, "w"), indent=1)
            replay_paths.append((sig, path, detail))

    for r in results:
        if r["job"].get("fuzz_dir"):
            shutil.rmtree(r["job"]["fuzz_dir"], ignore_errors=True)
    wall = time.time() - t0
    nviol = len(unlisted)
    level = plan.get("level", "exploration")
    distinct = len(digests)
    coverage = {
        "evaluations": evals,
        "distinct_nontrivial": distinct,
        "rule": plan["rule"],
        "samples": samples,
        "checks_compared": checks,
        "digest_overflow_not_counted": digest_overflow,
        "legs": legs_info,
        "counters": {k: v for k, v in sorted(counters.items()) if "/" not in k},
        "counters_by_cfg": {k: v for k, v in sorted(counters.items()) if "/" in k},
        "probes": probes,
        "probe_sets": sets,
        "builds": builds,
        "bounds_hook_fired": oob,
        "inconclusive": inconclusive,
        "known_findings_seen": sorted(known_hits.keys()),
    }
    if plan.get("exhaustive_note"):
        coverage["exhaustive"] = bool(plan.get("exhaustive", False))
        coverage["exhaustive_scope"] = plan["exhaustive_note"]
    coverage.update({k: v for k, v in notes.items() if k.startswith("cov.")})
    evidence = {
        "property_id": prop,
        "tier": tier,
        "seed": seed,
        "level": level,
        "coverage": coverage,
        "assumptions": plan.get("assumptions", []),
        "wall_s": round(wall, 2),
        "violations": nviol,
        "verdict": "violated" if nviol else ("inconclusive" if (inconclusive or harness_errors) else "held_on_explored"),
    }
    # Evidence about /repo goes to evidence/; runs against a scratch copy (VERIF_REPO, VERIF_ONLY_CFGS) must not overwrite it.
    official = os.path.abspath(REPO) == "/repo" and not os.environ.get("VERIF_ONLY_CFGS")
    edir = os.path.join(VERIF, "evidence") if official else os.path.join(CACHE, "evidence-scratch", repo_key())
    os.makedirs(edir, exist_ok=True)
    if evals > 0 and distinct >= 2 and samples:
        json.dump(evidence, open(os.path.join(edir, "%s.json" % prop), "w"), indent=1, sort_keys=True)

    for sig, (k, detail) in sorted(known_hits.items()):
        print("KNOWN-FINDING: property=%s %s [sig=%s]" % (prop, k["desc"], sig))
    for sig, path, detail in replay_paths:
        print("VIOLATION property=%s replay=%s" % (prop, path))
        print("  sig=%s" % sig)
        print("  " + detail[:1500].replace("\n", "\n  "))
    print("%s %s seed=%d: evaluations=%d distinct=%d checks=%d violations=%d known=%d inconclusive=%d wall=%.1fs" % (
        prop, tier, seed, evals, distinct, checks, nviol, len(known_hits), len(inconclusive), wall))
    if nviol:
        return 1
    if harness_errors:
        for h in harness_errors[:10]:
            print("HARNESS-ERROR %s" % h)
        return 2
    if inconclusive:
        for i in inconclusive[:10]:
            print("INCONCLUSIVE %s" % i)
        return 2
    return 0


def replay(path):
    case = json.load(open(path))
    global REPO
    args = list(case["args"])
    if case.get("case") is not None:
        args.append("case=%d" % case["case"])
    job = {"cfg": case["cfg"], "args": args, "leg": 0, "shard": 0, "timeout": 3600, "env": {}, "weight": 1}
    if case.get("fuzz_input"):
        # Coverage-guided leg: the stored input is executed once by the same binary.
        job.update({"args": [case["fuzz_input"]], "env": case.get("env", {}), "fuzz_replay": True})
    r = run_shard(job)
    print("replay of %s (sig %s) in configuration %s" % (path, case["sig"], case["cfg"]))
    crash = classify_crash(r)
    found = False
    if crash:
        print("  process ended abnormally: %s\n%s" % (crash, r["stderr_tail"][-3000:]))
        found = True
    if r["result"]:
        for v in r["result"]["violations"]:
            print("  VIOLATION sig=%s\n    %s" % (v["sig"], v["detail"]))
            found = True
    elif r.get("fuzz_violations"):
        for v in r["fuzz_violations"]:
            print("  VIOLATION sig=%s\n    %s" % (v["sig"], v["detail"]))
            found = True
    if not found:
        print("  no violation reproduced")
    return 1 if found else 0


def setup():
    cfgs = set()
    for prop, plan in plans.PLANS.items():
        for tier in ("quick", "thorough"):
            for leg in plan["legs"][tier]:
                if not leg.get("python"):
                    cfgs.add(leg["cfg"])
    for c in sorted(cfgs):
        build(c)
    print("setup: built %s" % ", ".join(sorted(cfgs)))
    return 0


def main():
    argv = sys.argv[1:]
    if not argv:
        print(__doc__)
        return 2
    if argv[0] == "--setup":
        return setup()
    if argv[0] == "--replay":
        return replay(argv[1])
    prop = argv[0]
    tier = os.environ.get("VERIF_TIER", "quick")
    seed = int(os.environ.get("VERIF_SEED", "1") or "1")
    i = 1
    while i < len(argv):
        if argv[i] == "--tier":
            tier = argv[i + 1]; i += 2
        elif argv[i] == "--seed":
            seed = int(argv[i + 1]); i += 2
        else:
            i += 1
    if tier not in ("quick", "thorough"):
        tier = "quick"
    if prop not in plans.PLANS:
        return harness_error("no plan for %s" % prop)
    return run_property(prop, tier, seed)


if __name__ == "__main__":
    sys.exit(main())
